// Package simrt is the runtime half of the deterministic simulator (DESIGN.md §2).
// The rewriter makes the library call into it at every function entry (Y), every
// range over a map (Keys), every insertion into a pointer-keyed ranged map (Touch),
// every mutex operation (Lock...) and every os.ReadFile (ReadFile).
//
// Exactly one goroutine runs library code at any time (token scheduler), so the
// package needs no locking of its own. Nothing here reads a clock or an
// unseeded PRNG. stdlib only.
package simrt

import (
	"encoding/binary"
	"fmt"
	"math"
	"os"
	"reflect"
	"sort"
	"sync"
	"unsafe"
)

// ---------------------------------------------------------------- PRNG

// SplitMix is the only PRNG used anywhere in the simulator.
type SplitMix uint64

func (s *SplitMix) Next() uint64 {
	*s += 0x9e3779b97f4a7c15
	z := uint64(*s)
	z = (z ^ (z >> 30)) * 0xbf58476d1ce4e5b9
	z = (z ^ (z >> 27)) * 0x94d049bb133111eb
	return z ^ (z >> 31)
}

func (s *SplitMix) Intn(n int) int {
	if n <= 1 {
		return 0
	}
	return int(s.Next() % uint64(n))
}

// Mix derives an independent stream seed from a seed and a purpose label.
func Mix(seed uint64, label string) uint64 {
	h := uint64(1469598103934665603) ^ seed
	for i := 0; i < len(label); i++ {
		h ^= uint64(label[i])
		h *= 1099511628211
	}
	s := SplitMix(h)
	return s.Next()
}

// ---------------------------------------------------------------- steps / budget / scheduler

// StepBudget is the panic value raised when a run exceeds its step budget.
type StepBudgetExceeded struct{ Steps uint64 }

func (e StepBudgetExceeded) Error() string {
	return fmt.Sprintf("simrt: step budget exceeded (%d steps)", e.Steps)
}

type Preempt struct {
	Step uint64 // global step at which the token is passed
	To   int    // task index to run next (taken modulo runnable tasks)
}

type task struct {
	wake     chan struct{}
	done     bool
	steps    uint64
	started  bool
	lockDept int
	gw       int // package-level writes performed by this task
}

// PreemptW passes the token right after the K-th (0-based) package-level write of
// task Task: the systematic counterpart of the step-indexed Preempt plan, aimed at
// the only places where renders can interfere through process-wide state.
type PreemptW struct {
	Task int `json:"task"`
	K    int `json:"k"`
	To   int `json:"to"`
}

var (
	steps     uint64
	nextEvent uint64 = math.MaxUint64
	budget    uint64 = math.MaxUint64

	tasks    []*task
	cur      int
	preempts []Preempt
	pi       int
	pendingSwitch bool
	pendingTo     int
	allDone  chan struct{}

	preemptsW []PreemptW
	// GWrites counts package-level writes per site in this run; GWTotal their number.
	GWrites = map[int]int{}
	GWTotal int
	gwSolo  int

	// Switches records (step, from, to) of every token hand-off performed.
	Switches [][3]uint64

	// Hit marks function-entry sites reached (index = site id).
	Hit []uint8
	// LastSites is a small ring of the most recent function-entry sites (for
	// diagnostics of budget overruns).
	lastSites [16]int32
	lastPos   int
)

// W is called after every statement of the rewritten library that writes
// package-level state (variable, field, element or pointee rooted in a package-level
// variable), outside init().
func W(site int) {
	GWrites[site]++
	GWTotal++
	EventHash = hashMix(EventHash, 0x6777, uint64(site))
	if len(tasks) == 0 {
		gwSolo++
		return
	}
	t := tasks[cur]
	k := t.gw
	t.gw++
	for _, p := range preemptsW {
		if p.Task == cur && p.K == k {
			if t.lockDept > 0 {
				pendingSwitch = true
				pendingTo = p.To
				return
			}
			switchTo(pick(p.To))
			return
		}
	}
}

// MapConflict: one map written by two different tasks of a concurrent run, with no lock of
// the library held at either write. Independent renders share no mutable map (process-wide
// caches are written under their lock), so this is interference whether or not the two
// writes ever meet in time.
type MapConflict struct {
	SiteA int32 `json:"site_a"`
	SiteB int32 `json:"site_b"`
	TaskA int   `json:"task_a"`
	TaskB int   `json:"task_b"`
}

type mwRec struct {
	task int
	site int32
}

var (
	MapConflicts []MapConflict
	mwOwner      map[unsafe.Pointer]mwRec
	mwPins       []interface{} // keeps every recorded map alive, so that no address is reused during the run
)

// MW is called after every map write of the rewritten library (m[k] = v, m[k]++, delete).
func MW[K comparable, V any](m map[K]V, site int32) {
	if len(tasks) == 0 || m == nil {
		return
	}
	if tasks[cur].lockDept > 0 {
		return
	}
	p := *(*unsafe.Pointer)(unsafe.Pointer(&m))
	r, ok := mwOwner[p]
	if !ok {
		if mwOwner == nil {
			mwOwner = map[unsafe.Pointer]mwRec{}
		}
		mwOwner[p] = mwRec{cur, site}
		mwPins = append(mwPins, m)
		return
	}
	if r.task != cur {
		for _, c := range MapConflicts {
			if c.SiteA == r.site && c.SiteB == site {
				return
			}
		}
		if len(MapConflicts) < 32 {
			MapConflicts = append(MapConflicts, MapConflict{r.site, site, r.task, cur})
		}
	}
}

// W2 is W for a true write (assignment, ++, delete) to the package-level variable numbered
// gvar: besides being a scheduling point, a variable written by two tasks of one run with no
// lock held is reported like a shared map.
func W2(site int, gvar int) {
	if len(tasks) > 0 && tasks[cur].lockDept == 0 {
		r, ok := gvOwner[gvar]
		if !ok {
			if gvOwner == nil {
				gvOwner = map[int]mwRec{}
			}
			gvOwner[gvar] = mwRec{cur, int32(site)}
		} else if r.task != cur {
			dup := false
			for _, c := range MapConflicts {
				if c.SiteA == r.site && c.SiteB == int32(site) {
					dup = true
				}
			}
			if !dup && len(MapConflicts) < 32 {
				MapConflicts = append(MapConflicts, MapConflict{r.site, int32(site), r.task, cur})
			}
		}
	}
	W(site)
}

var gvOwner map[int]mwRec

// PW is called after writes through a field, a slice element or a dereference in the packages
// whose objects renders may share (rewriter: trackedDir). Same rule as MW, per address.
func PW[T any](ptr *T, site int32) {
	if len(tasks) == 0 || ptr == nil || unsafe.Sizeof(*ptr) == 0 {
		return
	}
	if tasks[cur].lockDept > 0 {
		return
	}
	p := unsafe.Pointer(ptr)
	r, ok := mwOwner[p]
	if !ok {
		if mwOwner == nil {
			mwOwner = map[unsafe.Pointer]mwRec{}
		}
		mwOwner[p] = mwRec{cur, site}
		mwPins = append(mwPins, ptr)
		return
	}
	if r.task != cur {
		for _, c := range MapConflicts {
			if c.SiteA == r.site && c.SiteB == site {
				return
			}
		}
		if len(MapConflicts) < 32 {
			MapConflicts = append(MapConflicts, MapConflict{r.site, site, r.task, cur})
		}
	}
}

// Steps returns the global step counter (function entries so far in this run).
func Steps() uint64 { return steps }

// Y is called at every function entry of the rewritten library.
func Y(site int32) {
	steps++
	if int(site) < len(Hit) {
		Hit[site] = 1
	}
	if steps >= nextEvent {
		slowY(site)
	}
}

func recomputeNext() {
	nextEvent = budget
	if pi < len(preempts) && preempts[pi].Step < nextEvent {
		nextEvent = preempts[pi].Step
	}
	if pendingSwitch && (len(tasks) == 0 || tasks[cur].lockDept == 0) {
		nextEvent = steps + 1
	}
}

func slowY(site int32) {
	if steps >= budget {
		budget = math.MaxUint64 // let deferred functions run
		recomputeNext()
		panic(StepBudgetExceeded{steps})
	}
	if len(tasks) == 0 {
		// no scheduler: drop preemption points
		pi = len(preempts)
		pendingSwitch = false
		recomputeNext()
		return
	}
	to := -1
	if pendingSwitch {
		to = pendingTo
	}
	for pi < len(preempts) && preempts[pi].Step <= steps {
		to = preempts[pi].To
		pi++
	}
	if to < 0 {
		recomputeNext()
		return
	}
	if tasks[cur].lockDept > 0 {
		// park with no lock held: remember the switch, perform it after Unlock
		pendingSwitch, pendingTo = true, to
		recomputeNext()
		return
	}
	pendingSwitch = false
	recomputeNext()
	switchTo(pick(to))
}

// pick maps a requested task index to a runnable task other than the current one
// when possible.
func pick(to int) int {
	n := len(tasks)
	for i := 0; i < n; i++ {
		j := ((to%n)+n+i) % n
		if !tasks[j].done && j != cur {
			return j
		}
	}
	return cur
}

func switchTo(j int) {
	if j == cur {
		return
	}
	me := cur
	Switches = append(Switches, [3]uint64{steps, uint64(me), uint64(j)})
	EventHash = hashMix(EventHash, 0x5157, steps, uint64(me)<<16|uint64(j))
	cur = j
	tasks[j].wake <- struct{}{}
	<-tasks[me].wake
}

// RunTasks runs the given functions as token-scheduled tasks: exactly one runs at
// a time; the token moves only at the preemption points of the plan or when a
// task ends. It returns when all tasks have ended. Panics inside a task must be
// recovered by the task function itself.
func RunTasks(fns []func(), plan []Preempt, planW []PreemptW) {
	preemptsW = planW
	tasks = make([]*task, len(fns))
	for i := range fns {
		tasks[i] = &task{wake: make(chan struct{})}
	}
	preempts = plan
	pi = 0
	pendingSwitch = false
	Switches = nil
	allDone = make(chan struct{})
	cur = 0
	recomputeNext()
	for i, fn := range fns {
		i, fn := i, fn
		go func() {
			<-tasks[i].wake
			defer func() {
				tasks[i].done = true
				// hand the token to the next runnable task, or finish
				next := -1
				for d := 1; d <= len(tasks); d++ {
					j := (i + d) % len(tasks)
					if !tasks[j].done {
						next = j
						break
					}
				}
				if next < 0 {
					close(allDone)
					return
				}
				Switches = append(Switches, [3]uint64{steps, uint64(i), uint64(next)})
				cur = next
				tasks[next].wake <- struct{}{}
			}()
			fn()
		}()
	}
	tasks[0].wake <- struct{}{}
	<-allDone
	tasks = nil
	preempts = nil
	recomputeNext()
}

// CurrentTask returns the index of the running task (0 when no scheduler).
func CurrentTask() int { return cur }

// Lock wrappers: no preemption while a lock is held ("park with no lock held").
func Lock(mu sync.Locker) {
	if len(tasks) > 0 {
		tasks[cur].lockDept++
	}
	LockOps++
	mu.Lock()
}

func Unlock(mu sync.Locker) {
	mu.Unlock()
	if len(tasks) > 0 {
		tasks[cur].lockDept--
		if pendingSwitch && tasks[cur].lockDept == 0 {
			recomputeNext() // the next function entry performs the deferred switch
		}
	}
}

func RLock(mu *sync.RWMutex) {
	if len(tasks) > 0 {
		tasks[cur].lockDept++
	}
	LockOps++
	mu.RLock()
}

func RUnlock(mu *sync.RWMutex) {
	mu.RUnlock()
	if len(tasks) > 0 {
		tasks[cur].lockDept--
		if pendingSwitch && tasks[cur].lockDept == 0 {
			recomputeNext()
		}
	}
}

var LockOps uint64

// ---------------------------------------------------------------- map-order seam

const (
	ModeCanon   = "canon"
	ModeReverse = "reverse"
	ModeRotate  = "rotate"
	ModeShuffle = "shuffle"
)

// OrderPlan prescribes the permutation applied at each range-over-map site.
type OrderPlan struct {
	Mode  string         `json:"mode"`            // default mode for enabled sites
	Seed  uint64         `json:"seed"`            // for shuffle / rotate
	Sites []int          `json:"sites,omitempty"` // enabled sites; nil = all
	Pin   []int          `json:"pin,omitempty"`   // sites forced to canon (known findings)
	Per   map[int]string `json:"per,omitempty"`   // per-site mode override
}

type SiteStat struct {
	Visits   uint64 `json:"v"`
	Relevant uint64 `json:"r"` // visits with >= 2 keys
	Permuted uint64 `json:"p"` // visits where a non-identity permutation was applied
	MaxKeys  int    `json:"k"`
}

var (
	plan        OrderPlan
	siteMode    map[int]string // resolved
	allSites    bool
	registry    = map[unsafe.Pointer]uint64{}
	nextID      uint64
	Unregistered uint64
	SiteStats   = map[int]*SiteStat{}
	// EventHash is a rolling hash of every seam event of the run.
	EventHash uint64
	// OrderLog, when non-nil, receives one line per order-relevant visit.
	OrderLog *[]string
)

func hashMix(h uint64, vals ...uint64) uint64 {
	for _, v := range vals {
		h ^= v
		h *= 0x100000001b3
		h ^= h >> 29
	}
	return h
}

// Event folds an external seam event (fetch, disk, backend…) into the event hash.
func Event(kind uint64, vals ...uint64) {
	EventHash = hashMix(EventHash, kind)
	EventHash = hashMix(EventHash, vals...)
}

func HashString(s string) uint64 {
	h := uint64(1469598103934665603)
	for i := 0; i < len(s); i++ {
		h ^= uint64(s[i])
		h *= 1099511628211
	}
	return h
}

// Package-level init() functions of the library run before any spec exists. Their
// range-over-map sites take their order from the environment, so that a whole
// worker process can be started under a non-canonical init-time order:
//
//	VERIFSIM_INIT_ORDER=reverse | shuffle:<seed> | rotate:<seed>
//
// (simrt is imported by every instrumented package, hence initialised first.)
func init() {
	v := os.Getenv("VERIFSIM_INIT_ORDER")
	if v == "" {
		return
	}
	mode, seed := v, uint64(0)
	for i := 0; i < len(v); i++ {
		if v[i] == ':' {
			mode = v[:i]
			fmt.Sscanf(v[i+1:], "%d", &seed)
			break
		}
	}
	plan = OrderPlan{Mode: mode, Seed: seed}
	allSites = true
	siteMode = map[int]string{}
}

// Reset prepares a fresh run.
func Reset(p OrderPlan, stepBudget uint64, nSites int) {
	steps = 0
	budget = stepBudget
	if budget == 0 {
		budget = math.MaxUint64
	}
	plan = p
	siteMode = map[int]string{}
	allSites = p.Sites == nil
	for _, s := range p.Sites {
		siteMode[s] = p.Mode
	}
	for s, m := range p.Per {
		siteMode[s] = m
	}
	for _, s := range p.Pin {
		siteMode[s] = ModeCanon
	}
	registry = map[unsafe.Pointer]uint64{}
	MapConflicts, mwOwner, mwPins, gvOwner = nil, nil, nil, nil
	nextID = 0
	Unregistered = 0
	SiteStats = map[int]*SiteStat{}
	EventHash = 0
	LockOps = 0
	GWrites = map[int]int{}
	GWTotal = 0
	gwSolo = 0
	preemptsW = nil
	Switches = nil
	tasks = nil
	preempts = nil
	pi = 0
	pendingSwitch = false
	if len(Hit) != nSites+1 {
		Hit = make([]uint8, nSites+1)
	} else {
		for i := range Hit {
			Hit[i] = 0
		}
	}
	disk = nil
	DiskLog = nil
	recomputeNext()
}

// SetBudget changes the step budget mid-run (absolute step count; 0 = none).
func SetBudget(b uint64) {
	if b == 0 {
		b = math.MaxUint64
	}
	budget = b
	recomputeNext()
}

func idOf(p unsafe.Pointer, register bool) uint64 {
	if p == nil {
		return 0
	}
	if id, ok := registry[p]; ok {
		return id
	}
	if !register {
		Unregistered++
	}
	nextID++
	registry[p] = nextID
	return nextID
}

func encode(buf []byte, v reflect.Value, register bool) []byte {
	switch v.Kind() {
	case reflect.Bool:
		if v.Bool() {
			return append(buf, 1)
		}
		return append(buf, 0)
	case reflect.Int, reflect.Int8, reflect.Int16, reflect.Int32, reflect.Int64:
		return binary.BigEndian.AppendUint64(buf, uint64(v.Int())^(1<<63))
	case reflect.Uint, reflect.Uint8, reflect.Uint16, reflect.Uint32, reflect.Uint64, reflect.Uintptr:
		return binary.BigEndian.AppendUint64(buf, v.Uint())
	case reflect.Float32, reflect.Float64:
		b := math.Float64bits(v.Float())
		if b&(1<<63) != 0 {
			b = ^b
		} else {
			b |= 1 << 63
		}
		return binary.BigEndian.AppendUint64(buf, b)
	case reflect.String:
		// 0x00 0x01 escaping keeps the encoding prefix-free and order preserving
		s := v.String()
		for i := 0; i < len(s); i++ {
			if s[i] == 0 {
				buf = append(buf, 0, 1)
			} else {
				buf = append(buf, s[i])
			}
		}
		return append(buf, 0, 0)
	case reflect.Pointer, reflect.UnsafePointer, reflect.Chan, reflect.Map, reflect.Func:
		return binary.BigEndian.AppendUint64(buf, idOf(v.UnsafePointer(), register))
	case reflect.Interface:
		if v.IsNil() {
			return binary.BigEndian.AppendUint64(buf, 0)
		}
		e := v.Elem()
		buf = append(buf, e.Type().String()...)
		buf = append(buf, 0, 0)
		return encode(buf, e, register)
	case reflect.Struct:
		for i := 0; i < v.NumField(); i++ {
			buf = encode(buf, v.Field(i), register)
		}
		return buf
	case reflect.Array:
		for i := 0; i < v.Len(); i++ {
			buf = encode(buf, v.Index(i), register)
		}
		return buf
	case reflect.Complex64, reflect.Complex128:
		c := v.Complex()
		buf = binary.BigEndian.AppendUint64(buf, math.Float64bits(real(c)))
		return binary.BigEndian.AppendUint64(buf, math.Float64bits(imag(c)))
	}
	panic(fmt.Sprintf("simrt: unsupported key kind %s", v.Kind()))
}

// Touch registers the pointers reachable in a map key, in program order, so that
// canonical order for pointer keys is insertion order.
func Touch(k any) {
	v := reflect.ValueOf(k)
	if !v.IsValid() {
		return
	}
	encode(nil, v, true)
}

func Zero2[M ~map[K]V, K comparable, V any](m M) (k K, v V) { return }
func ZeroK[M ~map[K]V, K comparable, V any](m M) (k K)      { return }
func ZeroV[M ~map[K]V, K comparable, V any](m M) (v V)      { return }

// Keys returns the keys of m in the order the run's plan prescribes for this site.
func Keys[M ~map[K]V, K comparable, V any](m M, site int) []K {
	st := SiteStats[site]
	if st == nil {
		st = &SiteStat{}
		SiteStats[site] = st
	}
	st.Visits++
	if len(m) == 0 {
		return nil
	}
	type kv struct {
		k   K
		enc string
	}
	ks := make([]kv, 0, len(m))
	for k := range m {
		ks = append(ks, kv{k, ""})
	}
	if len(ks) > st.MaxKeys {
		st.MaxKeys = len(ks)
	}
	if len(ks) >= 2 {
		st.Relevant++
		for i := range ks {
			ks[i].enc = string(encode(nil, reflect.ValueOf(&ks[i].k).Elem(), false))
		}
		sort.Slice(ks, func(i, j int) bool { return ks[i].enc < ks[j].enc })
		mode, ok := siteMode[site]
		if !ok {
			if allSites {
				mode = plan.Mode
			} else {
				mode = ModeCanon
			}
		}
		permuted := false
		switch mode {
		case ModeReverse:
			for i, j := 0, len(ks)-1; i < j; i, j = i+1, j-1 {
				ks[i], ks[j] = ks[j], ks[i]
			}
			permuted = true
		case ModeRotate:
			s := SplitMix(plan.Seed ^ uint64(site)*0x9e3779b1 ^ st.Visits<<24)
			r := 1 + s.Intn(len(ks)-1)
			rot := make([]kv, 0, len(ks))
			rot = append(rot, ks[r:]...)
			rot = append(rot, ks[:r]...)
			ks = rot
			permuted = true
		case ModeShuffle:
			s := SplitMix(plan.Seed ^ uint64(site)*0x9e3779b1 ^ st.Visits<<24)
			for i := len(ks) - 1; i > 0; i-- {
				j := s.Intn(i + 1)
				if i != j {
					permuted = true
				}
				ks[i], ks[j] = ks[j], ks[i]
			}
		}
		if permuted {
			st.Permuted++
		}
		// event: site, n, hash of the applied order (by canonical encoding)
		h := uint64(len(ks))
		for i := range ks {
			h = hashMix(h, HashString(ks[i].enc))
		}
		EventHash = hashMix(EventHash, 0x4b, uint64(site), h)
		if OrderLog != nil {
			*OrderLog = append(*OrderLog, fmt.Sprintf("keys site=%d n=%d mode=%s h=%016x", site, len(ks), mode, h))
		}
	}
	out := make([]K, len(ks))
	for i := range ks {
		out[i] = ks[i].k
	}
	return out
}

// ---------------------------------------------------------------- disk seam

// Disk, when set, decides the outcome of every os.ReadFile of the library.
type Disk interface {
	ReadFile(name string) (data []byte, err error, handled bool)
}

var (
	disk    Disk
	DiskLog []string
)

func SetDisk(d Disk) { disk = d }

func ReadFile(name string) ([]byte, error) {
	if disk != nil {
		if b, err, ok := disk.ReadFile(name); ok {
			st := "ok"
			if err != nil {
				st = "err"
			}
			DiskLog = append(DiskLog, name+" "+st)
			Event(0xd15c, HashString(name), uint64(len(b)), HashString(st))
			return b, err
		}
	}
	b, err := os.ReadFile(name)
	DiskLog = append(DiskLog, name+" real")
	return b, err
}
