//go:build !verifsim

package main

// the un-rewritten build has no reset hook: process-global caches stay warm
func resetProcessGlobals() {}
