package main

// Recording backend (DESIGN.md §2.5) + online protocol monitor for C14 (§6).
// It is the stub on the output seam: everything the library draws arrives here.

import (
	"crypto/sha256"
	"encoding/hex"
	"fmt"
	"io"
	"math"
	"runtime"
	"sort"
	"strings"
	"time"

	"github.com/benoitkugler/webrender/backend"
	"github.com/benoitkugler/webrender/css/parser"
	"github.com/benoitkugler/webrender/matrix"
)

type fl = backend.Fl

// Violation is one failed monitor rule.
type Violation struct {
	Frame  string `json:"frame,omitempty"` // webrender call site (file#func) that issued the call
	Rule   string `json:"rule"`            // stable identifier of the rule
	Detail string `json:"detail"` // human readable
	Page   int    `json:"page"`
}

type TextCall struct {
	Page   int     `json:"page"`
	Seq    int     `json:"seq"` // index of the DrawText call on that page (all canvases)
	Text   string  `json:"text"`
	X      float64 `json:"x"`
	Y      float64 `json:"y"`
	Size   float64 `json:"size"`
	Canvas int     `json:"canvas"`
}

type PageInfo struct {
	Left, Top, Width, Height float64
}

// Rec is one recorded document.
type Rec struct {
	lines      []string
	keepLines  bool
	h          io.Writer
	hasher     interface{ Sum([]byte) []byte }
	nCalls     int
	callKinds  map[string]int
	Violations []Violation
	Texts      []TextCall
	Pages      []PageInfo
	curPage    int
	nextCanvas int
	fonts      []fontEntry
	anchorsSet bool
	Anchors    [][]backend.Anchor
	anchorCalls, attachCalls, bookmarkCalls int
	metaCalls  map[string]int
	Internal   []linkRec // internal links emitted
	External   []linkRec
	FileAnnots []linkRec
	Embedded   []string
	Attach     []string
	Bookmarks  []backend.BookmarkNode
	Meta       map[string]string
	Images     []string // id/mime/len/sha of every raster image drawn
	pageEnded  bool
	afterAnchors bool
}

type linkRec struct {
	Page   int
	Target string
	Rect   [4]float64
}

type fontEntry struct {
	font  backend.Font
	chars *backend.FontChars
	key   string
}

func NewRec(keepLines bool) *Rec {
	hs := sha256.New()
	return &Rec{h: hs, hasher: hs, keepLines: keepLines, callKinds: map[string]int{}, metaCalls: map[string]int{}, Meta: map[string]string{}, curPage: -1}
}

func (r *Rec) Hash() string { return hex.EncodeToString(r.hasher.Sum(nil))[:24] }

func (r *Rec) emit(kind string, format string, args ...interface{}) {
	r.nCalls++
	r.callKinds[kind]++
	s := kind + " " + fmt.Sprintf(format, args...)
	io.WriteString(r.h, s)
	io.WriteString(r.h, "\n")
	if r.keepLines {
		r.lines = append(r.lines, s)
	}
}

func (r *Rec) violate(rule, format string, args ...interface{}) {
	if len(r.Violations) < 50 {
		buf := make([]byte, 1<<14)
		frame := topFrame(string(buf[:runtime.Stack(buf, false)]))
		r.Violations = append(r.Violations, Violation{Rule: rule, Frame: frame, Detail: fmt.Sprintf(format, args...), Page: r.curPage})
	}
}

func fb(v fl) string { return fmt.Sprintf("%08x", math.Float32bits(float32(v))) }

func fbs(vs ...fl) string {
	parts := make([]string, len(vs))
	for i, v := range vs {
		parts[i] = fb(v)
	}
	return strings.Join(parts, ",")
}

func (r *Rec) finite(call string, vs ...fl) {
	for i, v := range vs {
		f := float64(v)
		if math.IsNaN(f) || math.IsInf(f, 0) {
			r.violate("finite", "%s: argument %d is %v", call, i, v)
			return
		}
	}
}

func matFl(m matrix.Transform) []fl { return []fl{m.A, m.B, m.C, m.D, m.E, m.F} }

// ---- backend.Document

func (r *Rec) AddPage(left, top, right, bottom fl) backend.Page {
	r.finite("AddPage", left, top, right, bottom)
	if r.afterAnchors {
		r.violate("addpage-after-anchors", "AddPage called after CreateAnchors")
	}
	r.curPage++
	r.Pages = append(r.Pages, PageInfo{float64(left), float64(top), float64(right), float64(bottom)})
	r.emit("AddPage", "%s", fbs(left, top, right, bottom))
	c := r.newCanvas(nil)
	return &recPage{canvas: c}
}

func (r *Rec) CreateAnchors(anchors [][]backend.Anchor) {
	r.anchorCalls++
	r.afterAnchors = true
	r.Anchors = anchors
	var sb strings.Builder
	for i, pa := range anchors {
		fmt.Fprintf(&sb, "[p%d:", i)
		for _, a := range pa {
			r.finite("CreateAnchors", a.X, a.Y)
			fmt.Fprintf(&sb, " %q@%s", a.Name, fbs(a.X, a.Y))
		}
		sb.WriteString("]")
	}
	r.emit("CreateAnchors", "%s", sb.String())
}

func (r *Rec) SetAttachments(as []backend.Attachment) {
	r.attachCalls++
	var sb strings.Builder
	for _, a := range as {
		sum := sha256.Sum256(a.Content)
		fmt.Fprintf(&sb, " (%q %q %d %x)", a.Title, a.Description, len(a.Content), sum[:6])
		r.Attach = append(r.Attach, a.Title)
	}
	r.emit("SetAttachments", "%s", sb.String())
}

func (r *Rec) EmbedFile(fileID string, a backend.Attachment) {
	sum := sha256.Sum256(a.Content)
	r.Embedded = append(r.Embedded, fileID)
	r.emit("EmbedFile", "%q %q %q %d %x", fileID, a.Title, a.Description, len(a.Content), sum[:6])
}

func (r *Rec) meta(k, v string) {
	r.metaCalls[k]++
	r.Meta[k] = v
	r.emit("Set"+k, "%q", v)
}

func (r *Rec) SetTitle(s string)       { r.meta("Title", s) }
func (r *Rec) SetDescription(s string) { r.meta("Description", s) }
func (r *Rec) SetCreator(s string)     { r.meta("Creator", s) }
func (r *Rec) SetAuthors(s []string)   { r.meta("Authors", strings.Join(s, "\x1f")) }
func (r *Rec) SetKeywords(s []string)  { r.meta("Keywords", strings.Join(s, "\x1f")) }
func (r *Rec) SetProducer(s string)    { r.meta("Producer", s) }
func (r *Rec) SetDateCreation(d time.Time) {
	r.meta("DateCreation", d.UTC().Format(time.RFC3339Nano))
}
func (r *Rec) SetDateModification(d time.Time) {
	r.meta("DateModification", d.UTC().Format(time.RFC3339Nano))
}

func (r *Rec) SetBookmarks(root []backend.BookmarkNode) {
	r.bookmarkCalls++
	r.Bookmarks = root
	var sb strings.Builder
	var walk func(ns []backend.BookmarkNode, depth int)
	walk = func(ns []backend.BookmarkNode, depth int) {
		for _, n := range ns {
			r.finite("SetBookmarks", n.X, n.Y)
			fmt.Fprintf(&sb, " (%d %q p%d %s %v", depth, n.Label, n.PageIndex, fbs(n.X, n.Y), n.Open)
			walk(n.Children, depth+1)
			sb.WriteString(")")
		}
	}
	walk(root, 0)
	r.emit("SetBookmarks", "%s", sb.String())
}

// ---- canvases

type recCanvas struct {
	r        *Rec
	id       int
	page     int
	ctm      []matrix.Transform // stack; last is current
	bbox     [4]fl
	hasPath  bool // path under construction is non-empty
	hasPoint bool // there is a current point
}

type recPage struct {
	canvas *recCanvas
}

func (r *Rec) newCanvas(parent *recCanvas) *recCanvas {
	c := &recCanvas{r: r, id: r.nextCanvas, page: r.curPage, ctm: []matrix.Transform{matrix.Identity()}}
	r.nextCanvas++
	return c
}

func (c *recCanvas) tag() string { return fmt.Sprintf("c%d", c.id) }

// Page-only methods
func (p *recPage) AddInternalLink(xMin, yMin, xMax, yMax fl, anchorName string) {
	r := p.canvas.r
	r.finite("AddInternalLink", xMin, yMin, xMax, yMax)
	r.Internal = append(r.Internal, linkRec{p.canvas.page, anchorName, [4]float64{float64(xMin), float64(yMin), float64(xMax), float64(yMax)}})
	r.emit("AddInternalLink", "%s %s %q", p.canvas.tag(), fbs(xMin, yMin, xMax, yMax), anchorName)
}

func (p *recPage) AddExternalLink(xMin, yMin, xMax, yMax fl, url string) {
	r := p.canvas.r
	r.finite("AddExternalLink", xMin, yMin, xMax, yMax)
	r.External = append(r.External, linkRec{p.canvas.page, url, [4]float64{float64(xMin), float64(yMin), float64(xMax), float64(yMax)}})
	r.emit("AddExternalLink", "%s %s %q", p.canvas.tag(), fbs(xMin, yMin, xMax, yMax), url)
}

func (p *recPage) AddFileAnnotation(xMin, yMin, xMax, yMax fl, fileID string) {
	r := p.canvas.r
	r.finite("AddFileAnnotation", xMin, yMin, xMax, yMax)
	r.FileAnnots = append(r.FileAnnots, linkRec{p.canvas.page, fileID, [4]float64{float64(xMin), float64(yMin), float64(xMax), float64(yMax)}})
	r.emit("AddFileAnnotation", "%s %s %q", p.canvas.tag(), fbs(xMin, yMin, xMax, yMax), fileID)
}

func (p *recPage) SetMediaBox(l, t, rr, b fl) {
	p.canvas.r.finite("SetMediaBox", l, t, rr, b)
	p.canvas.r.emit("SetMediaBox", "%s", fbs(l, t, rr, b))
}
func (p *recPage) SetTrimBox(l, t, rr, b fl) {
	p.canvas.r.finite("SetTrimBox", l, t, rr, b)
	p.canvas.r.emit("SetTrimBox", "%s", fbs(l, t, rr, b))
}
func (p *recPage) SetBleedBox(l, t, rr, b fl) {
	p.canvas.r.finite("SetBleedBox", l, t, rr, b)
	p.canvas.r.emit("SetBleedBox", "%s", fbs(l, t, rr, b))
}

// Canvas delegation for pages
func (p *recPage) GetBoundingBox() (fl, fl, fl, fl)    { return p.canvas.GetBoundingBox() }
func (p *recPage) SetBoundingBox(l, t, r, b fl)       { p.canvas.SetBoundingBox(l, t, r, b) }
func (p *recPage) OnNewStack(f func())                { p.canvas.OnNewStack(f) }
func (p *recPage) State() backend.GraphicState        { return p.canvas }
func (p *recPage) NewGroup(x, y, w, h fl) backend.Canvas { return p.canvas.NewGroup(x, y, w, h) }
func (p *recPage) DrawWithOpacity(o fl, g backend.Canvas) { p.canvas.DrawWithOpacity(o, g) }
func (p *recPage) Paint(op backend.PaintOp)           { p.canvas.Paint(op) }
func (p *recPage) Rectangle(x, y, w, h fl)            { p.canvas.Rectangle(x, y, w, h) }
func (p *recPage) MoveTo(x, y fl)                     { p.canvas.MoveTo(x, y) }
func (p *recPage) LineTo(x, y fl)                     { p.canvas.LineTo(x, y) }
func (p *recPage) CubicTo(a, b, c, d, e, f fl)        { p.canvas.CubicTo(a, b, c, d, e, f) }
func (p *recPage) ClosePath()                         { p.canvas.ClosePath() }
func (p *recPage) AddFont(f backend.Font, content []byte) *backend.FontChars {
	return p.canvas.AddFont(f, content)
}
func (p *recPage) DrawText(t []backend.TextDrawing) { p.canvas.DrawText(t) }
func (p *recPage) DrawRasterImage(i backend.RasterImage, w, h fl) {
	p.canvas.DrawRasterImage(i, w, h)
}
func (p *recPage) DrawGradient(g backend.GradientLayout, w, h fl) { p.canvas.DrawGradient(g, w, h) }

func canvasID(c backend.Canvas) string {
	switch c := c.(type) {
	case *recCanvas:
		return c.tag()
	case *recPage:
		return c.canvas.tag()
	case nil:
		return "nil"
	}
	return fmt.Sprintf("%T", c)
}

func (c *recCanvas) GetBoundingBox() (fl, fl, fl, fl) {
	return c.bbox[0], c.bbox[1], c.bbox[2], c.bbox[3]
}

func (c *recCanvas) SetBoundingBox(l, t, r, b fl) {
	c.r.finite("SetBoundingBox", l, t, r, b)
	c.bbox = [4]fl{l, t, r, b}
	c.r.emit("SetBoundingBox", "%s %s", c.tag(), fbs(l, t, r, b))
}

func (c *recCanvas) OnNewStack(f func()) {
	c.r.emit("Save", "%s", c.tag())
	c.ctm = append(c.ctm, c.ctm[len(c.ctm)-1])
	depth := len(c.ctm)
	f()
	if len(c.ctm) != depth {
		c.r.violate("stack", "unbalanced graphic stack")
	}
	c.ctm = c.ctm[:len(c.ctm)-1]
	c.r.emit("Restore", "%s", c.tag())
}

func (c *recCanvas) State() backend.GraphicState { return c }

func (c *recCanvas) NewGroup(x, y, w, h fl) backend.Canvas {
	c.r.finite("NewGroup", x, y, w, h)
	g := c.r.newCanvas(c)
	g.bbox = [4]fl{x, y, x + w, y + h}
	c.r.emit("NewGroup", "%s -> %s %s", c.tag(), g.tag(), fbs(x, y, w, h))
	return g
}

func (c *recCanvas) DrawWithOpacity(o fl, g backend.Canvas) {
	c.r.finite("DrawWithOpacity", o)
	c.r.emit("DrawWithOpacity", "%s %s %s", c.tag(), fb(o), canvasID(g))
}

func (c *recCanvas) Paint(op backend.PaintOp) {
	if !c.hasPath {
		c.r.violate("paint-without-path", "Paint(%s) on %s with no path constructed since the last Paint/Clip", op, c.tag())
	}
	c.hasPath, c.hasPoint = false, false
	c.r.emit("Paint", "%s %d", c.tag(), op)
}

func (c *recCanvas) Rectangle(x, y, w, h fl) {
	c.r.finite("Rectangle", x, y, w, h)
	c.hasPath, c.hasPoint = true, true
	c.r.emit("Rectangle", "%s %s", c.tag(), fbs(x, y, w, h))
}

func (c *recCanvas) MoveTo(x, y fl) {
	c.r.finite("MoveTo", x, y)
	c.hasPath, c.hasPoint = true, true
	c.r.emit("MoveTo", "%s %s", c.tag(), fbs(x, y))
}

func (c *recCanvas) LineTo(x, y fl) {
	c.r.finite("LineTo", x, y)
	if !c.hasPoint {
		c.r.violate("no-current-point", "LineTo on %s without a current point", c.tag())
	}
	c.hasPath = true
	c.r.emit("LineTo", "%s %s", c.tag(), fbs(x, y))
}

func (c *recCanvas) CubicTo(x1, y1, x2, y2, x3, y3 fl) {
	c.r.finite("CubicTo", x1, y1, x2, y2, x3, y3)
	if !c.hasPoint {
		c.r.violate("no-current-point", "CubicTo on %s without a current point", c.tag())
	}
	c.hasPath = true
	c.r.emit("CubicTo", "%s %s", c.tag(), fbs(x1, y1, x2, y2, x3, y3))
}

func (c *recCanvas) ClosePath() {
	if !c.hasPoint {
		c.r.violate("no-current-point", "ClosePath on %s without a current point", c.tag())
	}
	c.r.emit("ClosePath", "%s", c.tag())
}

func fontKey(f backend.Font) string {
	if f == nil {
		return "<nil font>"
	}
	o := f.Origin()
	d := f.Description()
	return fmt.Sprintf("%s#%d#%d|%s|%d|%d|%s|%s|%d|%v|%v", o.File, o.Index, o.Instance, d.Family, d.Style, d.Weight, fb(d.Ascent), fb(d.Descent), d.Size, d.IsOpentype, d.IsOpentypeOpentype)
}

func (c *recCanvas) AddFont(f backend.Font, content []byte) *backend.FontChars {
	for _, e := range c.r.fonts {
		if e.font == f {
			c.r.emit("AddFont", "%s %s again", c.tag(), e.key)
			return e.chars
		}
	}
	sum := sha256.Sum256(content)
	e := fontEntry{font: f, key: fontKey(f), chars: &backend.FontChars{Cmap: map[backend.GID][]rune{}, Extents: map[backend.GID]backend.GlyphExtents{}}}
	c.r.fonts = append(c.r.fonts, e)
	c.r.emit("AddFont", "%s %s new content=%d:%x", c.tag(), e.key, len(content), sum[:6])
	return e.chars
}

func (c *recCanvas) DrawText(texts []backend.TextDrawing) {
	var sb strings.Builder
	for _, t := range texts {
		c.r.finite("DrawText", t.FontSize, t.ScaleX, t.X, t.Y, t.Angle)
		fmt.Fprintf(&sb, " {%q %s", string(t.Text), fbs(t.FontSize, t.ScaleX, t.X, t.Y, t.Angle))
		for _, run := range t.Runs {
			known := false
			for _, e := range c.r.fonts {
				if e.font == run.Font {
					known = true
					break
				}
			}
			if !known {
				c.r.violate("font-not-registered", "DrawText uses font %s never passed to AddFont", fontKey(run.Font))
			}
			fmt.Fprintf(&sb, " run[%s:", fontKey(run.Font))
			for _, g := range run.Glyphs {
				c.r.finite("DrawText glyph", g.Offset, g.Rise, g.XAdvance)
				if g.TextOffset < 0 || g.TextLength < 0 || g.TextOffset+g.TextLength > len(t.Text) {
					c.r.violate("glyph-text-range", "glyph text range [%d,+%d) outside text of length %d", g.TextOffset, g.TextLength, len(t.Text))
				}
				fmt.Fprintf(&sb, " %d/%d/%s/%d+%d", g.Glyph, g.Kerning, fbs(g.Offset, g.Rise, g.XAdvance), g.TextOffset, g.TextLength)
			}
			sb.WriteString("]")
		}
		sb.WriteString("}")
		x, y := c.ctm[len(c.ctm)-1].Apply(t.X, t.Y)
		c.r.Texts = append(c.r.Texts, TextCall{Page: c.page, Seq: c.r.callKinds["DrawText"], Text: string(t.Text), X: float64(x), Y: float64(y), Size: float64(t.FontSize), Canvas: c.id})
	}
	c.r.emit("DrawText", "%s%s", c.tag(), sb.String())
}

func (c *recCanvas) DrawRasterImage(img backend.RasterImage, w, h fl) {
	c.r.finite("DrawRasterImage", w, h)
	var n int
	sum := sha256.New()
	if img.Content != nil {
		nn, _ := io.Copy(sum, img.Content)
		n = int(nn)
	}
	s := fmt.Sprintf("id=%d mime=%s rendering=%s len=%d sha=%x", img.ID, img.MimeType, img.Rendering, n, sum.Sum(nil)[:6])
	c.r.Images = append(c.r.Images, s)
	c.r.emit("DrawRasterImage", "%s %s %s", c.tag(), s, fbs(w, h))
}

func (c *recCanvas) DrawGradient(g backend.GradientLayout, w, h fl) {
	c.r.finite("DrawGradient", w, h, g.ScaleY)
	c.r.finite("DrawGradient positions", g.Positions...)
	c.r.finite("DrawGradient coords", g.Coords[:]...)
	var sb strings.Builder
	for _, col := range g.Colors {
		c.r.finite("DrawGradient color", col.R, col.G, col.B, col.A)
		sb.WriteString(" " + fbs(col.R, col.G, col.B, col.A))
	}
	c.r.emit("DrawGradient", "%s %s pos=%s colors=%s coords=%s scaleY=%s rep=%v %s", c.tag(), g.Kind, fbs(g.Positions...), sb.String(), fbs(g.Coords[:]...), fb(g.ScaleY), g.Reapeating, fbs(w, h))
}

// ---- GraphicState

func (c *recCanvas) SetAlphaMask(mask backend.Canvas) {
	c.r.emit("SetAlphaMask", "%s %s", c.tag(), canvasID(mask))
}

func (c *recCanvas) Clip(evenOdd bool) {
	if !c.hasPath {
		c.r.violate("clip-without-path", "Clip on %s with no path constructed since the last Paint/Clip", c.tag())
	}
	c.hasPath, c.hasPoint = false, false
	c.r.emit("Clip", "%s %v", c.tag(), evenOdd)
}

func (c *recCanvas) SetAlpha(alpha fl, stroke bool) {
	c.r.finite("SetAlpha", alpha)
	c.r.emit("SetAlpha", "%s %s %v", c.tag(), fb(alpha), stroke)
}

func (c *recCanvas) SetColorRgba(color parser.RGBA, stroke bool) {
	c.r.finite("SetColorRgba", color.R, color.G, color.B, color.A)
	c.r.emit("SetColorRgba", "%s %s %v", c.tag(), fbs(color.R, color.G, color.B, color.A), stroke)
}

func (c *recCanvas) SetColorPattern(p backend.Canvas, cw, ch fl, mat matrix.Transform, stroke bool) {
	c.r.finite("SetColorPattern", append([]fl{cw, ch}, matFl(mat)...)...)
	c.r.emit("SetColorPattern", "%s %s %s %s %v", c.tag(), canvasID(p), fbs(cw, ch), fbs(matFl(mat)...), stroke)
}

func (c *recCanvas) SetBlendingMode(mode string) {
	c.r.emit("SetBlendingMode", "%s %q", c.tag(), mode)
}

func (c *recCanvas) SetLineWidth(w fl) {
	c.r.finite("SetLineWidth", w)
	c.r.emit("SetLineWidth", "%s %s", c.tag(), fb(w))
}

func (c *recCanvas) SetDash(dashes []fl, offset fl) {
	c.r.finite("SetDash", append([]fl{offset}, dashes...)...)
	c.r.emit("SetDash", "%s [%s] %s", c.tag(), fbs(dashes...), fb(offset))
}

func (c *recCanvas) SetStrokeOptions(o backend.StrokeOptions) {
	c.r.finite("SetStrokeOptions", o.MiterLimit)
	c.r.emit("SetStrokeOptions", "%s %d %d %s", c.tag(), o.LineCap, o.LineJoin, fb(o.MiterLimit))
}

func (c *recCanvas) GetTransform() matrix.Transform { return c.ctm[len(c.ctm)-1] }

func (c *recCanvas) Transform(mt matrix.Transform) {
	c.r.finite("Transform", matFl(mt)...)
	c.ctm[len(c.ctm)-1] = matrix.Mul(c.ctm[len(c.ctm)-1], mt)
	c.r.emit("Transform", "%s %s", c.tag(), fbs(matFl(mt)...))
}

func (c *recCanvas) SetTextPaint(op backend.PaintOp) {
	c.r.emit("SetTextPaint", "%s %d", c.tag(), op)
}

// ---- end-of-document checks (sequence rules of C14)

// Finish runs the rules that can only be decided once Write has returned.
// nPages is len(Document.Pages).
func (r *Rec) Finish(nPages int) {
	r.curPage = -1
	if len(r.Pages) != nPages {
		r.violate("addpage-count", "%d AddPage calls for %d laid-out pages", len(r.Pages), nPages)
	}
	if r.anchorCalls != 1 {
		r.violate("createanchors-once", "CreateAnchors called %d times", r.anchorCalls)
	} else if len(r.Anchors) != nPages {
		r.violate("createanchors-pages", "CreateAnchors got %d page lists for %d pages", len(r.Anchors), nPages)
	}
	if r.attachCalls != 1 {
		r.violate("setattachments-once", "SetAttachments called %d times", r.attachCalls)
	}
	if r.bookmarkCalls != 1 {
		r.violate("setbookmarks-once", "SetBookmarks called %d times", r.bookmarkCalls)
	}
	for _, k := range []string{"Title", "Description", "Creator", "Authors", "Keywords", "Producer", "DateCreation", "DateModification"} {
		if r.metaCalls[k] != 1 {
			r.violate("metadata-once", "Set%s called %d times", k, r.metaCalls[k])
		}
	}
	// anchors: each name at most once
	names := map[string]int{}
	for _, pa := range r.Anchors {
		for _, a := range pa {
			names[a.Name]++
		}
	}
	var dups []string
	for n, k := range names {
		if k > 1 {
			dups = append(dups, n)
		}
	}
	sort.Strings(dups)
	for _, n := range dups {
		r.violate("anchor-duplicate", "anchor %q defined %d times by CreateAnchors", n, names[n])
	}
	for _, l := range r.Internal {
		if names[l.Target] == 0 {
			r.curPage = l.Page
			r.violate("dangling-internal-link", "internal link to %q on page %d but CreateAnchors defines no such anchor", l.Target, l.Page)
		}
	}
	r.curPage = -1
	emb := map[string]bool{}
	for _, e := range r.Embedded {
		emb[e] = true
	}
	for _, l := range r.FileAnnots {
		if !emb[l.Target] {
			// backend.Page.AddFileAnnotation: "The file content has been added with EmbedFile"
			r.curPage = l.Page
			r.violate("file-annotation-not-embedded", "AddFileAnnotation(%q) on page %d but EmbedFile was never called with that id", l.Target, l.Page)
		}
	}
	r.curPage = -1
	// bookmarks point to existing pages
	var walk func(ns []backend.BookmarkNode)
	walk = func(ns []backend.BookmarkNode) {
		for _, n := range ns {
			if n.PageIndex < 0 || n.PageIndex >= nPages {
				r.violate("bookmark-page", "bookmark %q points to page %d of %d", n.Label, n.PageIndex, nPages)
			}
			walk(n.Children)
		}
	}
	walk(r.Bookmarks)
}

// CallKinds returns the per-kind call counts, sorted.
func (r *Rec) CallKinds() map[string]int { return r.callKinds }
