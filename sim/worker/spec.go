package main

import (
	"github.com/benoitkugler/webrender/verifsim/simrt"
)

// Spec is one exactly repeatable simulated run. The supervisor derives it from
// VERIF_SEED; a replay file is a Spec (plus the verdict it produced).
type Spec struct {
	ID     string          `json:"id"`
	Order  simrt.OrderPlan `json:"order"`
	Budget uint64          `json:"budget,omitempty"` // step budget for the whole run (0 = none)
	Faults []Fault         `json:"faults,omitempty"`
	// Shared ops run first, on the main goroutine; the objects they create are
	// visible to every task.
	Shared []Op `json:"shared,omitempty"`
	// Tasks: each task is a list of ops with its own objects. One task = no
	// scheduler. Several tasks = token scheduler with the Preempt plan.
	Tasks   [][]Op          `json:"tasks"`
	Preempt []simrt.Preempt `json:"preempt,omitempty"`
	// PreemptW: switch right after the K-th package-level write of a task.
	PreemptW []simrt.PreemptW `json:"preempt_w,omitempty"`
	// Free: run the tasks as free-running goroutines on the real Go scheduler
	// (race probe; only meaningful in the un-rewritten -race build).
	Free bool `json:"free,omitempty"`
	// Dump: directory where full traces / order logs are written.
	Dump string `json:"dump,omitempty"`
	// Detail: include per-text-call data and layout words in the result.
	Detail bool `json:"detail,omitempty"`
}

// Op is one API operation of a history.
type Op struct {
	Op string `json:"op"` // fontconfig | css | html | render | write | layout | parse
	ID string `json:"id"` // name of the object created

	Scenario string `json:"scenario,omitempty"` // html, css(file of that scenario)
	File     string `json:"file,omitempty"`     // css: file name inside the scenario dir
	Text     string `json:"text,omitempty"`     // css: inline stylesheet text (instead of File); entry: the text to parse
	TextB64  string `json:"text_b64,omitempty"` // entry: base64 of the text when it is not valid UTF-8
	Kind     string `json:"kind,omitempty"`     // entry: which parser entry point (selector | stylesheet | declarations | tokens | svg | dataurl | color | nth | style_attr)
	Engine   string `json:"engine,omitempty"`   // fontconfig: pango | gotext
	Input    string `json:"input,omitempty"`    // html: url (default) | reader | string
	Chunk    uint64 `json:"chunk,omitempty"`    // html via reader: seed of chunk sizes (0 = one chunk)
	Media    string `json:"media,omitempty"`    // html
	ViaHTTP  bool   `json:"via_http,omitempty"` // html: fetch through utils.DefaultUrlFetcher over SimTransport

	HTML  string   `json:"html,omitempty"` // render/layout/parse: id of html object
	CSS   []string `json:"css,omitempty"`  // render/layout/parse: ids of css objects
	FC    string   `json:"fc,omitempty"`   // render/layout/parse: id of font configuration
	Hints bool     `json:"hints,omitempty"`

	Doc  string  `json:"doc,omitempty"`  // write: id of rendered document
	Zoom float64 `json:"zoom,omitempty"` // write
}

// Fault is one injected fault at a seam.
type Fault struct {
	Op   string `json:"op,omitempty"` // restrict to the fetcher of this html op ("" = any)
	At   string `json:"at"`           // "seq:N" (N-th fetch of that fetcher, 0-based) | "url:<suffix>" | "main" | "disk:<suffix>"
	Kind string `json:"kind"`         // err | trunc | flip | empty | mime | swap | redirect | transient | charset | closeerr
	N    int    `json:"n,omitempty"`  // trunc: keep N bytes; flip: offset; transient: first N fetches fail
	B    int    `json:"b,omitempty"`  // flip: replacement byte
	S    string `json:"s,omitempty"`  // mime / swap target / redirect / charset
}

type OpResult struct {
	Op     string `json:"op"`
	ID     string `json:"id"`
	Task   int    `json:"task"`
	Status string `json:"status"`          // ok | error | panic | budget | skipped
	Err    string `json:"err,omitempty"`   // error text / panic value
	Frame  string `json:"frame,omitempty"` // top webrender frame of a panic: file#func
	Stack  string `json:"stack,omitempty"`
	Steps  uint64 `json:"steps"`

	// write
	Trace      string         `json:"trace,omitempty"` // hash of the full backend call trace
	Calls      int            `json:"calls,omitempty"`
	Kinds      map[string]int `json:"kinds,omitempty"`
	NPages     int            `json:"npages,omitempty"`
	Pages      []PageInfo     `json:"pages,omitempty"`
	PageWords  [][]string     `json:"page_words,omitempty"`  // words drawn per page, in call order
	PageLines  [][]LineRec    `json:"page_lines,omitempty"`  // words drawn per page grouped by baseline, top to bottom
	Texts      []TextCall     `json:"texts,omitempty"`       // Detail only
	Violations []Violation    `json:"violations,omitempty"`  // C14 monitor
	Anchors    [][]string     `json:"anchors,omitempty"`     // names per page
	Internal   []string       `json:"internal,omitempty"`    // "page>target"
	Bookmarks  []string       `json:"bookmarks,omitempty"`   // "depth|label|page" preorder
	Meta       map[string]string `json:"meta,omitempty"`
	Images     []string       `json:"images,omitempty"`
	Attach     []string       `json:"attach,omitempty"`
	Embedded   []string       `json:"embedded,omitempty"`

	// layout
	LayoutWords [][]string `json:"layout_words,omitempty"` // words of TextBoxes per page (tree order)
	PageGeom    []PageGeom `json:"page_geom,omitempty"`
}

type LineRec struct {
	Y     float64  `json:"y"`
	Words []string `json:"w"`
}

type PageGeom struct {
	W, H                   float64
	MT, MR, MB, ML         float64 // margins
	ContentBottom          float64 // y of the bottom edge of the page content box
	MaxLineBottom          float64 // lowest bottom edge among main-flow line boxes
	MaxBlockBottom         float64 // lowest margin-box bottom among in-flow block-level boxes of elements (not html/body)
	FootnoteTop            float64 // top of the footnote area if the page has footnotes, else 0
	FirstWord              string  // first main-flow word on the page
	PageType               string
}

type FetchRec struct {
	Op      string `json:"op"`
	Seq     int    `json:"seq"`
	URL     string `json:"url"`
	Outcome string `json:"outcome"` // ok | fault:<kind> | 404 | data
	Len     int    `json:"len"`
}

type Result struct {
	MapConflicts []simrt.MapConflict `json:"map_conflicts,omitempty"` // maps written by two tasks of this run
	NonFinite []string `json:"non_finite,omitempty"` // result fields that held NaN / Inf (clamped to +-1e300 for transport)
	ID           string                   `json:"id"`
	Ops          []OpResult               `json:"ops"`
	Steps        uint64                   `json:"steps"`
	EventHash    string                   `json:"event_hash"`
	Fetches      []FetchRec               `json:"fetches,omitempty"`
	FaultsFired  map[string]int           `json:"faults_fired,omitempty"`
	Sites        map[int]*simrt.SiteStat  `json:"sites,omitempty"`
	Unregistered uint64                   `json:"unregistered,omitempty"`
	Switches     [][3]uint64              `json:"switches,omitempty"`
	LockOps      uint64                   `json:"lock_ops,omitempty"`
	GWrites      map[int]int              `json:"gwrites,omitempty"`  // package-level write sites hit -> count
	GWTotal      int                      `json:"gw_total,omitempty"`
	FuncsHit     int                      `json:"funcs_hit,omitempty"`
	Warnings     int                      `json:"warnings"`
	Probes       map[string]int           `json:"probes,omitempty"`
	Disk         []string                 `json:"disk,omitempty"`
	Fatal        string                   `json:"fatal,omitempty"`
}
