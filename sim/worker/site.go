package main

// SimSite: the in-memory "network" behind utils.UrlFetcher, the SimTransport behind
// http.DefaultClient, the SimReader behind utils.InputReader and the SimDisk behind
// the rewritten os.ReadFile (DESIGN.md §2.4).

import (
	"bytes"
	"compress/gzip"
	"encoding/json"
	"errors"
	"fmt"
	"io"
	"net/http"
	"os"
	"path/filepath"
	"strings"
	"sync"

	"github.com/benoitkugler/webrender/utils"
	"github.com/benoitkugler/webrender/verifsim/simrt"
)

type SiteFile struct {
	Mime     string `json:"mime,omitempty"`
	Charset  string `json:"charset,omitempty"`
	Redirect string `json:"redirect,omitempty"` // RedirectedUrl reported for this resource
	Filename string `json:"filename,omitempty"`
	Gzip     bool   `json:"gzip,omitempty"` // via_http only: serve with Content-Encoding: gzip
	data     []byte
}

type Scenario struct {
	Name    string               `json:"name"`
	Family  string               `json:"family"`
	Base    string               `json:"base"`
	Main    string               `json:"main"`
	Files   map[string]*SiteFile `json:"files"`
	UserCSS []string             `json:"user_css,omitempty"`
	Expect  json.RawMessage      `json:"expect,omitempty"`
	dir     string
	main    []byte
}

var (
	corpusDir   string
	scenarios   = map[string]*Scenario{}
	scenariosMu sync.Mutex
	freeMode    bool // free-running goroutines (race probe): no simrt events
)

func event(kind uint64, vals ...uint64) {
	if !freeMode {
		simrt.Event(kind, vals...)
	}
}

func loadScenario(name string) (*Scenario, error) {
	scenariosMu.Lock()
	defer scenariosMu.Unlock()
	if s, ok := scenarios[name]; ok {
		return s, nil
	}
	dir := filepath.Join(corpusDir, "scenarios", name)
	b, err := os.ReadFile(filepath.Join(dir, "scenario.json"))
	if err != nil {
		return nil, err
	}
	var s Scenario
	if err := json.Unmarshal(b, &s); err != nil {
		return nil, fmt.Errorf("%s: %v", name, err)
	}
	s.dir = dir
	if s.Base == "" {
		s.Base = "http://sim.test/" + name + "/"
	}
	if s.Main == "" {
		s.Main = "index.html"
	}
	s.main, err = os.ReadFile(filepath.Join(dir, s.Main))
	if err != nil {
		return nil, err
	}
	for fn, f := range s.Files {
		f.data, err = os.ReadFile(filepath.Join(dir, fn))
		if err != nil {
			return nil, err
		}
	}
	if s.Files == nil {
		s.Files = map[string]*SiteFile{}
	}
	if _, ok := s.Files[s.Main]; !ok {
		s.Files[s.Main] = &SiteFile{Mime: "text/html", data: s.main}
	}
	scenarios[name] = &s
	return &s, nil
}

func (s *Scenario) lookup(url string) (*SiteFile, string, bool) {
	if !strings.HasPrefix(url, s.Base) {
		return nil, "", false
	}
	name := url[len(s.Base):]
	if i := strings.IndexAny(name, "#?"); i >= 0 {
		name = name[:i]
	}
	f, ok := s.Files[name]
	return f, name, ok
}

// ---- run-wide seam state

type seams struct {
	mu       sync.Mutex
	faults   []Fault
	fired    map[string]int
	fetches  []FetchRec
	warnings int
}

func (sm *seams) fire(kind string) {
	sm.mu.Lock()
	sm.fired[kind]++
	sm.mu.Unlock()
}

func (sm *seams) record(rec FetchRec) {
	sm.mu.Lock()
	sm.fetches = append(sm.fetches, rec)
	sm.mu.Unlock()
}

// applyFault transforms (data, meta) according to the first matching fault.
// Returns err != nil for faults that make the fetch fail.
func (sm *seams) match(op string, seq int, url string, transientCount map[string]int) *Fault {
	for i := range sm.faults {
		f := &sm.faults[i]
		if f.Op != "" && f.Op != op {
			continue
		}
		switch {
		case strings.HasPrefix(f.At, "seq:"):
			var n int
			fmt.Sscanf(f.At, "seq:%d", &n)
			if n != seq {
				continue
			}
		case strings.HasPrefix(f.At, "url:"):
			bare := url
			if i := strings.IndexAny(bare, "#?"); i >= 0 {
				bare = bare[:i] // a fault on a resource applies whatever fragment is requested
			}
			if !strings.HasSuffix(bare, f.At[4:]) {
				continue
			}
		default:
			continue
		}
		if f.Kind == "transient" {
			transientCount[url]++
			if transientCount[url] > f.N {
				continue
			}
		}
		return f
	}
	return nil
}

var errInjected = errors.New("simulated fetch failure")

func mutate(f *Fault, data []byte, others func(string) []byte) (out []byte, mime *string, charset *string, redirect *string, err error) {
	switch f.Kind {
	case "err", "transient":
		return nil, nil, nil, nil, errInjected
	case "trunc":
		n := f.N
		if n > len(data) {
			n = len(data)
		}
		if n < 0 {
			n = 0
		}
		return append([]byte(nil), data[:n]...), nil, nil, nil, nil
	case "flip":
		out = append([]byte(nil), data...)
		if f.N >= 0 && f.N < len(out) {
			out[f.N] = byte(f.B)
		}
		return out, nil, nil, nil, nil
	case "empty":
		return []byte{}, nil, nil, nil, nil
	case "mime":
		s := f.S
		return data, &s, nil, nil, nil
	case "charset":
		s := f.S
		return data, nil, &s, nil, nil
	case "swap":
		if o := others(f.S); o != nil {
			return o, nil, nil, nil, nil
		}
		return data, nil, nil, nil, nil
	case "redirect":
		s := f.S
		return data, nil, nil, &s, nil
	}
	return data, nil, nil, nil, nil
}

// fetcher builds the utils.UrlFetcher of one html op.
func (sm *seams) fetcher(op string, sc *Scenario) utils.UrlFetcher {
	seq := 0
	transient := map[string]int{}
	return func(url string) (utils.RemoteRessource, error) {
		mySeq := seq
		seq++
		rec := FetchRec{Op: op, Seq: mySeq, URL: url}
		done := func(outcome string, n int) {
			rec.Outcome, rec.Len = outcome, n
			sm.record(rec)
			event(0xfe7c, simrt.HashString(op), uint64(mySeq), simrt.HashString(url), simrt.HashString(outcome), uint64(n))
		}
		if strings.HasPrefix(strings.ToLower(url), "data:") {
			r, err := utils.DefaultUrlFetcher(url)
			if err != nil {
				done("data-err", 0)
			} else {
				done("data", r.Content.Len())
			}
			return r, err
		}
		file, _, ok := sc.lookup(url)
		flt := sm.match(op, mySeq, url, transient)
		if !ok {
			if flt != nil && (flt.Kind == "err" || flt.Kind == "transient") {
				sm.fire(flt.Kind)
			}
			done("404", 0)
			return utils.RemoteRessource{}, fmt.Errorf("simsite: 404 %s", url)
		}
		data := file.data
		res := utils.RemoteRessource{MimeType: file.Mime, ProtocolEncoding: file.Charset, RedirectedUrl: url, Filename: file.Filename}
		if file.Redirect != "" {
			res.RedirectedUrl = file.Redirect
		}
		outcome := "ok"
		if flt != nil {
			d, mime, cs, redir, err := mutate(flt, data, func(name string) []byte {
				if o, ok := sc.Files[name]; ok {
					return o.data
				}
				return nil
			})
			sm.fire(flt.Kind)
			outcome = "fault:" + flt.Kind
			if err != nil {
				done(outcome, 0)
				return utils.RemoteRessource{}, err
			}
			data = d
			if mime != nil {
				res.MimeType = *mime
			}
			if cs != nil {
				res.ProtocolEncoding = *cs
			}
			if redir != nil {
				res.RedirectedUrl = *redir
			}
		}
		// hand out a private copy: the library owns the reader
		res.Content = bytes.NewReader(append([]byte(nil), data...))
		done(outcome, len(data))
		return res, nil
	}
}

// ---- SimReader (main document through utils.InputReader)

type simReader struct {
	data     []byte
	pos      int
	rng      simrt.SplitMix
	chunked  bool
	eofData  bool // the read that delivers the last bytes also returns io.EOF (legal for an io.Reader; gzip and http bodies do it)
	failAt   int // -1: never; fail with an error once pos >= failAt
	closeErr bool
	closed   int
}

func (r *simReader) Read(p []byte) (int, error) {
	if r.failAt >= 0 && r.pos >= r.failAt {
		return 0, errors.New("simulated read error")
	}
	if r.pos >= len(r.data) {
		return 0, io.EOF
	}
	n := len(p)
	if r.chunked {
		n = 1 + r.rng.Intn(97)
		if r.eofData && len(r.data)-r.pos <= 400 {
			n = len(r.data) - r.pos // the last read, the one that also says io.EOF, carries real content
		}
		if n > len(p) {
			n = len(p)
		}
	}
	if r.failAt >= 0 && r.pos+n > r.failAt {
		n = r.failAt - r.pos
	}
	if r.pos+n > len(r.data) {
		n = len(r.data) - r.pos
	}
	copy(p, r.data[r.pos:r.pos+n])
	r.pos += n
	if r.eofData && r.pos == len(r.data) && r.failAt < 0 {
		return n, io.EOF
	}
	return n, nil
}

func (r *simReader) Close() error {
	r.closed++
	if r.closeErr {
		return errors.New("simulated close error")
	}
	return nil
}

// ---- SimTransport (http.RoundTripper) so that utils.DefaultUrlFetcher's real code runs

type simTransport struct {
	sm  *seams
	seq int
	transient map[string]int
}

type chunkBody struct {
	eofData bool
	data   []byte
	pos    int
	rng    simrt.SplitMix
	failAt int
}

func (b *chunkBody) Read(p []byte) (int, error) {
	if b.failAt >= 0 && b.pos >= b.failAt {
		return 0, errors.New("simulated connection reset")
	}
	if b.pos >= len(b.data) {
		return 0, io.EOF
	}
	n := 1 + b.rng.Intn(61)
	if n > len(p) {
		n = len(p)
	}
	if b.failAt >= 0 && b.pos+n > b.failAt {
		n = b.failAt - b.pos
	}
	if b.pos+n > len(b.data) {
		n = len(b.data) - b.pos
	}
	copy(p, b.data[b.pos:b.pos+n])
	b.pos += n
	if b.eofData && b.pos == len(b.data) && b.failAt < 0 {
		return n, io.EOF // as real http bodies often do with the last bytes
	}
	return n, nil
}
func (b *chunkBody) Close() error { return nil }

func (t *simTransport) RoundTrip(req *http.Request) (*http.Response, error) {
	url := req.URL.String()
	t.sm.mu.Lock()
	mySeq := t.seq
	t.seq++
	t.sm.mu.Unlock()
	rec := FetchRec{Op: "http", Seq: mySeq, URL: url}
	done := func(outcome string, n int) {
		rec.Outcome, rec.Len = outcome, n
		t.sm.record(rec)
		event(0x477b, uint64(mySeq), simrt.HashString(url), simrt.HashString(outcome), uint64(n))
	}
	var sc *Scenario
	var file *SiteFile
	scenariosMu.Lock()
	for _, s := range scenarios {
		if f, _, ok := s.lookup(url); ok {
			sc, file = s, f
			break
		}
	}
	scenariosMu.Unlock()
	flt := t.sm.match("http", mySeq, url, t.transient)
	hdr := http.Header{}
	resp := &http.Response{Proto: "HTTP/1.1", ProtoMajor: 1, ProtoMinor: 1, Header: hdr, Request: req}
	if file == nil {
		resp.StatusCode, resp.Status = 404, "404 Not Found"
		resp.Body = &chunkBody{data: []byte("not found"), failAt: -1}
		hdr.Set("Content-Type", "text/plain")
		done("404", 0)
		return resp, nil
	}
	data := file.data
	mimeType := file.Mime
	charset := file.Charset
	failAt := -1
	cutAt := -1
	lyingLength := int64(-1)
	outcome := "ok"
	if flt != nil {
		t.sm.fire("http-" + flt.Kind)
		outcome = "fault:" + flt.Kind
		switch flt.Kind {
		case "err", "transient":
			done(outcome, 0)
			return nil, errInjected
		case "trunc":
			// connection dies after N body bytes (on the wire, i.e. after compression)
			failAt = flt.N
		case "cut":
			// the peer closes cleanly after N wire bytes (no Content-Length): a short body, no error
			cutAt = flt.N
		case "status":
			// an error (or odd) status with a small body; 429 / 503 ask to retry at once
			resp.StatusCode, resp.Status = flt.N, fmt.Sprintf("%d Simulated", flt.N)
			hdr.Set("Content-Type", "text/html; charset=utf-8")
			if flt.N == 429 || flt.N == 503 {
				hdr.Set("Retry-After", "0")
			}
			if flt.N == 301 {
				hdr.Set("Location", url) // a redirect to itself, handed over as a response (the client follows none)
			}
			body := []byte("<html><body><h1>simulated status</h1></body></html>")
			if flt.N == 204 {
				body = nil
			}
			resp.Body = &chunkBody{data: body, failAt: -1}
			resp.ContentLength = int64(len(body))
			done(outcome, len(body))
			return resp, nil
		case "clen":
			// the real body, announced with an absurd (N < 0) or a too small Content-Length
			lyingLength = int64(flt.N)
			if flt.N < 0 {
				lyingLength = 1 << 62
			}
		default:
			d, mime, cs, _, _ := mutate(flt, data, func(name string) []byte {
				if o, ok := sc.Files[name]; ok {
					return o.data
				}
				return nil
			})
			data = d
			if mime != nil {
				mimeType = *mime
			}
			if cs != nil {
				charset = *cs
			}
		}
	}
	wire := data
	if file.Gzip {
		var buf bytes.Buffer
		zw := gzip.NewWriter(&buf)
		zw.Write(data)
		zw.Close()
		wire = buf.Bytes()
		hdr.Set("Content-Encoding", "gzip")
	}
	ct := mimeType
	if charset != "" {
		ct += "; charset=" + charset
	}
	if ct != "" {
		hdr.Set("Content-Type", ct)
	}
	if file.Filename != "" {
		hdr.Set("Content-Disposition", fmt.Sprintf("attachment; filename=%q", file.Filename))
	}
	resp.StatusCode, resp.Status = 200, "200 OK"
	if failAt > len(wire) {
		failAt = -1
	}
	if cutAt >= 0 && cutAt < len(wire) {
		wire = wire[:cutAt]
	}
	resp.Body = &chunkBody{data: wire, failAt: failAt, rng: simrt.SplitMix(simrt.HashString(url) ^ uint64(mySeq)), eofData: (simrt.HashString(url)^uint64(mySeq))&2 != 0}
	resp.ContentLength = lyingLength
	done(outcome, len(wire))
	return resp, nil
}

// ---- SimDisk

type simDisk struct {
	sm *seams
}

func (d simDisk) ReadFile(name string) ([]byte, error, bool) {
	for i := range d.sm.faults {
		f := &d.sm.faults[i]
		if !strings.HasPrefix(f.At, "disk:") || !strings.HasSuffix(name, f.At[5:]) {
			continue
		}
		d.sm.fire("disk-" + f.Kind)
		switch f.Kind {
		case "err":
			return nil, &os.PathError{Op: "open", Path: name, Err: os.ErrNotExist}, true
		case "eio":
			return nil, &os.PathError{Op: "read", Path: name, Err: errors.New("input/output error")}, true
		case "trunc":
			b, err := os.ReadFile(name)
			if err != nil {
				return nil, err, true
			}
			n := f.N
			if n > len(b) {
				n = len(b)
			}
			return b[:n], nil, true
		case "empty":
			return []byte{}, nil, true
		}
	}
	return nil, nil, false
}
