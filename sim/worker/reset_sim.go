//go:build verifsim

package main

import "github.com/benoitkugler/webrender/text/hyphen"

// every simulated run starts with a cold hyphenation cache
func resetProcessGlobals() { hyphen.VerifResetCache() }
