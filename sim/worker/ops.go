package main

import (
	"encoding/base64"
	"fmt"
	"math"
	"os"
	"path/filepath"
	"runtime"
	"sort"
	"strings"

	"github.com/benoitkugler/textprocessing/fontconfig"
	"github.com/benoitkugler/textprocessing/pango/fcfonts"
	"github.com/go-text/typesetting/fontscan"

	"github.com/benoitkugler/webrender/backend"
	"github.com/benoitkugler/webrender/css/counters"
	pa "github.com/benoitkugler/webrender/css/parser"
	pr "github.com/benoitkugler/webrender/css/properties"
	"github.com/benoitkugler/webrender/css/selector"
	"github.com/benoitkugler/webrender/css/validation"
	bo "github.com/benoitkugler/webrender/html/boxes"
	"github.com/benoitkugler/webrender/html/document"
	"github.com/benoitkugler/webrender/html/layout"
	"github.com/benoitkugler/webrender/html/tree"
	"github.com/benoitkugler/webrender/images"
	"github.com/benoitkugler/webrender/svg"
	"github.com/benoitkugler/webrender/text"
	"github.com/benoitkugler/webrender/text/hyphen"
	"github.com/benoitkugler/webrender/utils"
	"github.com/benoitkugler/webrender/verifsim/simrt"
)

// ---- font configurations

func fontsDir() string { return filepath.Join(corpusDir, "fonts") }

func newFontConfig(engine string) (text.FontConfiguration, error) {
	switch engine {
	case "", "pango":
		cfg := fontconfig.Standard.Copy()
		fs, err := cfg.ScanFontDirectories(fontsDir())
		if err != nil {
			return nil, err
		}
		return text.NewFontConfigurationPango(fcfonts.NewFontMap(cfg, fs)), nil
	case "gotext":
		fm := fontscan.NewFontMap(nil)
		for _, fn := range []string{"AHEM____.TTF", "weasyprint.otf"} {
			f, err := os.Open(filepath.Join(fontsDir(), fn))
			if err != nil {
				return nil, err
			}
			if err := fm.AddFont(f, fn, ""); err != nil {
				return nil, err
			}
		}
		return text.NewFontConfigurationGotext(fm), nil
	}
	return nil, fmt.Errorf("unknown engine %q", engine)
}

// ---- object store of one task

type htmlObj struct {
	h  *tree.HTML
	sc *Scenario
}

type docObj struct {
	d  *document.Document
	sc *Scenario
}

type store struct {
	parent *store
	fc     map[string]text.FontConfiguration
	css    map[string]tree.CSS
	html   map[string]*htmlObj
	doc    map[string]*docObj
}

func newStore(parent *store) *store {
	return &store{parent: parent, fc: map[string]text.FontConfiguration{}, css: map[string]tree.CSS{}, html: map[string]*htmlObj{}, doc: map[string]*docObj{}}
}

func (s *store) getFC(id string) (text.FontConfiguration, bool) {
	for ; s != nil; s = s.parent {
		if v, ok := s.fc[id]; ok {
			return v, true
		}
	}
	return nil, false
}

func (s *store) getCSS(id string) (tree.CSS, bool) {
	for ; s != nil; s = s.parent {
		if v, ok := s.css[id]; ok {
			return v, true
		}
	}
	return tree.CSS{}, false
}

func (s *store) getHTML(id string) (*htmlObj, bool) {
	for ; s != nil; s = s.parent {
		if v, ok := s.html[id]; ok {
			return v, true
		}
	}
	return nil, false
}

func (s *store) getDoc(id string) (*docObj, bool) {
	for ; s != nil; s = s.parent {
		if v, ok := s.doc[id]; ok {
			return v, true
		}
	}
	return nil, false
}

// ---- panic classification

func topFrame(stack string) string {
	// first frame inside github.com/benoitkugler/webrender that is not verifsim
	lines := strings.Split(stack, "\n")
	for i := 0; i+1 < len(lines); i++ {
		l := lines[i]
		if !strings.HasPrefix(l, "github.com/benoitkugler/webrender/") || strings.Contains(l, "/verifsim/") {
			continue
		}
		fn := l
		if j := strings.LastIndex(fn, "("); j > 0 {
			fn = fn[:j]
		}
		fn = strings.TrimPrefix(fn, "github.com/benoitkugler/webrender/")
		file := strings.TrimSpace(lines[i+1])
		if j := strings.Index(file, "/webrender/"); j >= 0 {
			file = file[j+len("/webrender/"):]
		}
		if j := strings.Index(file, ":"); j >= 0 {
			file = file[:j]
		}
		// fn is like html/layout.blockLevelLayout or html/layout.(*T).m
		if j := strings.LastIndex(fn, "/"); j >= 0 {
			fn = fn[j+1:]
		}
		if j := strings.Index(fn, "."); j >= 0 {
			fn = fn[j+1:]
		}
		return file + "#" + fn
	}
	return ""
}

// ---- text helpers

func splitWords(s string) []string { return strings.Fields(s) }

type tlc struct {
	fc text.FontConfiguration
	h  map[text.HyphenDictKey]hyphen.Hyphener
	s  map[text.StrutLayoutKey][2]pr.Float
}

func (t *tlc) Fonts() text.FontConfiguration                             { return t.fc }
func (t *tlc) HyphenCache() map[text.HyphenDictKey]hyphen.Hyphener       { return t.h }
func (t *tlc) StrutLayoutsCache() map[text.StrutLayoutKey][2]pr.Float    { return t.s }

// ---- executing ops

// entryOpBudget: steps one direct parser call may take. The largest corpus text takes 17 000
// (evidence: entry_op_max_steps); the bound is low because a loop that makes one step
// per iteration may still do quadratic work (a string growing at every turn).
const entryOpBudget = 200000

type runner struct {
	spec *Spec
	sm   *seams
	task int
	st   *store
	out  []OpResult
	dead bool // a previous op of this task panicked: skip the rest
}

func (rn *runner) exec(op Op) {
	res := OpResult{Op: op.Op, ID: op.ID, Task: rn.task, Status: "ok"}
	if rn.dead {
		res.Status = "skipped"
		rn.out = append(rn.out, res)
		return
	}
	start := simrt.Steps()
	if op.Op == "entry" {
		// entry ops are small and independent: each gets its own step budget, so that a
		// parser that never ends is stopped (and attributed) within its own op
		simrt.SetBudget(start + entryOpBudget)
	}
	func() {
		defer func() {
			if r := recover(); r != nil {
				if _, ok := r.(simrt.StepBudgetExceeded); ok {
					res.Status = "budget"
					res.Err = fmt.Sprint(r)
					buf := make([]byte, 1<<14)
					res.Stack = string(buf[:runtime.Stack(buf, false)])
					res.Frame = topFrame(res.Stack)
				} else {
					res.Status = "panic"
					res.Err = fmt.Sprint(r)
					buf := make([]byte, 1<<15)
					res.Stack = string(buf[:runtime.Stack(buf, false)])
					res.Frame = topFrame(res.Stack)
				}
				if op.Op != "entry" { // entry ops are independent of each other
					rn.dead = true
				}
			}
		}()
		rn.do(op, &res)
	}()
	res.Steps = simrt.Steps() - start
	if len(res.Stack) > 6000 {
		res.Stack = res.Stack[:6000]
	}
	rn.out = append(rn.out, res)
}

func (rn *runner) cssList(ids []string) ([]tree.CSS, error) {
	var out []tree.CSS
	for _, id := range ids {
		c, ok := rn.st.getCSS(id)
		if !ok {
			return nil, fmt.Errorf("unknown css %q", id)
		}
		out = append(out, c)
	}
	return out, nil
}

func (rn *runner) do(op Op, res *OpResult) {
	fail := func(err error) {
		res.Status = "error"
		res.Err = err.Error()
	}
	switch op.Op {
	case "fontconfig":
		fc, err := newFontConfig(op.Engine)
		if err != nil {
			panic("harness: " + err.Error())
		}
		rn.st.fc[op.ID] = fc
	case "entry":
		// a parser entry point driven directly with document-derived text (C07)
		txt := op.Text
		if op.TextB64 != "" {
			b, err := base64.StdEncoding.DecodeString(op.TextB64)
			if err != nil {
				panic("harness: bad text_b64")
			}
			txt = string(b)
		}
		res.Calls = runEntry(op.Kind, txt)
	case "css":
		b := []byte(op.Text)
		if op.Text == "" {
			sc, err := loadScenario(op.Scenario)
			if err != nil {
				panic("harness: " + err.Error())
			}
			b, err = os.ReadFile(filepath.Join(sc.dir, op.File))
			if err != nil {
				panic("harness: " + err.Error())
			}
		}
		c, err := tree.NewCSSDefault(utils.InputString(string(b)))
		if err != nil {
			fail(err)
			return
		}
		rn.st.css[op.ID] = c
	case "html":
		sc, err := loadScenario(op.Scenario)
		if err != nil {
			panic("harness: " + err.Error())
		}
		var fetcher utils.UrlFetcher
		if op.ViaHTTP {
			fetcher = utils.DefaultUrlFetcher
		} else {
			fetcher = rn.sm.fetcher(op.ID, sc)
		}
		var input utils.ContentInput
		mainURL := sc.Base + sc.Main
		base := ""
		switch op.Input {
		case "", "url":
			input = utils.InputUrl(mainURL)
		case "string":
			input = utils.InputString(string(sc.main))
			base = mainURL
		case "reader":
			rd := &simReader{data: sc.main, failAt: -1, chunked: op.Chunk != 0, rng: simrt.SplitMix(op.Chunk), eofData: op.Chunk&2 != 0 || (op.Chunk == 0 && simrt.HashString(op.Scenario)&1 == 1)}
			for _, f := range rn.sm.faults {
				if f.At != "main" || (f.Op != "" && f.Op != op.ID) {
					continue
				}
				rn.sm.fire("main-" + f.Kind)
				switch f.Kind {
				case "err":
					rd.failAt = f.N
				case "trunc":
					n := f.N
					if n > len(rd.data) {
						n = len(rd.data)
					}
					rd.data = rd.data[:n]
				case "flip":
					d := append([]byte(nil), rd.data...)
					if f.N >= 0 && f.N < len(d) {
						d[f.N] = byte(f.B)
					}
					rd.data = d
				case "closeerr":
					rd.closeErr = true
				}
			}
			input = utils.InputReader{ReadCloser: rd}
			base = mainURL
		default:
			panic("harness: unknown input kind " + op.Input)
		}
		h, err := tree.NewHTML(input, base, fetcher, op.Media)
		if err != nil {
			fail(err)
			return
		}
		rn.st.html[op.ID] = &htmlObj{h: h, sc: sc}
	case "render", "layout", "parse":
		ho, ok := rn.st.getHTML(op.HTML)
		if !ok {
			res.Status = "skipped"
			res.Err = "no html " + op.HTML
			return
		}
		fc, ok := rn.st.getFC(op.FC)
		if !ok {
			panic("harness: unknown fontconfig " + op.FC)
		}
		sheets, err := rn.cssList(op.CSS)
		if err != nil {
			res.Status = "skipped"
			res.Err = err.Error()
			return
		}
		switch op.Op {
		case "render":
			d := document.Render(ho.h, sheets, op.Hints, fc)
			rn.st.doc[op.ID] = &docObj{d: &d, sc: ho.sc}
			res.NPages = len(d.Pages)
		case "layout":
			pages := layout.Layout(ho.h, sheets, op.Hints, fc)
			res.NPages = len(pages)
			for _, p := range pages {
				res.LayoutWords = append(res.LayoutWords, layoutWords(p))
				res.PageGeom = append(res.PageGeom, pageGeom(p))
			}
		case "parse":
			// parse stage only (C07): cascade + box building, no layout
			cs := make(counters.CounterStyle)
			var pageRules []tree.PageRule
			tc := tree.NewTargetCollector()
			ctx := &tlc{fc: fc, h: map[text.HyphenDictKey]hyphen.Hyphener{}, s: map[text.StrutLayoutKey][2]pr.Float{}}
			styleFor := tree.GetAllComputedStyles(ho.h, sheets, op.Hints, fc, cs, &pageRules, &tc, false, ctx)
			cache := images.NewCache()
			getImage := func(url, forcedMimeType string, orientation pr.SBoolFloat) images.Image {
				return images.GetImageFromUri(cache, ho.h.UrlFetcher, false, url, forcedMimeType, orientation)
			}
			resolver := bo.URLResolver{Fetch: ho.h.UrlFetcher, FetchImage: getImage}
			var footnotes []bo.Box
			root := bo.BuildFormattingStructure(ho.h.Root, styleFor, resolver, ho.h.BaseUrl, &tc, cs, &footnotes)
			res.Calls = len(bo.Descendants(root))
			// computed values are lazy: ask for every property of every box, so that var()
			// substitution and each validator's computed form run in the parse stage too
			for _, b := range bo.Descendants(root) {
				if st := b.Box().Style; st != nil {
					for k := pr.KnownProp(1); k < pr.NbProperties; k++ {
						_ = st.Get(k.Key())
					}
				}
			}
			_ = ho.h.GetMetadata()
		}
	case "write":
		do, ok := rn.st.getDoc(op.Doc)
		if !ok {
			res.Status = "skipped"
			res.Err = "no doc " + op.Doc
			return
		}
		zoom := op.Zoom
		if zoom == 0 {
			zoom = 1
		}
		rec := NewRec(rn.spec.Dump != "")
		do.d.Write(rec, utils.Fl(zoom), nil)
		rec.Finish(len(do.d.Pages))
		res.Trace = rec.Hash()
		res.Calls = rec.nCalls
		res.Kinds = rec.callKinds
		res.NPages = len(do.d.Pages)
		res.Pages = rec.Pages
		res.Violations = rec.Violations
		res.PageWords = make([][]string, len(rec.Pages))
		for _, t := range rec.Texts {
			if t.Page >= 0 && t.Page < len(res.PageWords) {
				res.PageWords[t.Page] = append(res.PageWords[t.Page], splitWords(t.Text)...)
			}
		}
		res.PageLines = make([][]LineRec, len(rec.Pages))
		for pg := range res.PageLines {
			byY := map[int64][]TextCall{}
			for _, t := range rec.Texts {
				if t.Page == pg {
					k := int64(math.Round(t.Y * 100))
					byY[k] = append(byY[k], t)
				}
			}
			var ys []int64
			for k := range byY {
				ys = append(ys, k)
			}
			sort.Slice(ys, func(i, j int) bool { return ys[i] > ys[j] }) // device y grows upwards: top line first
			for _, k := range ys {
				ts := byY[k]
				sort.SliceStable(ts, func(i, j int) bool { return ts[i].X < ts[j].X })
				lr := LineRec{Y: float64(k) / 100}
				for _, t := range ts {
					lr.Words = append(lr.Words, splitWords(t.Text)...)
				}
				res.PageLines[pg] = append(res.PageLines[pg], lr)
			}
		}
		if rn.spec.Detail {
			res.Texts = rec.Texts
		}
		for _, pa := range rec.Anchors {
			var names []string
			for _, a := range pa {
				names = append(names, a.Name)
			}
			res.Anchors = append(res.Anchors, names)
		}
		for _, l := range rec.Internal {
			res.Internal = append(res.Internal, fmt.Sprintf("%d>%s", l.Page, l.Target))
		}
		var walk func(ns []backendBookmark, depth int)
		walk = func(ns []backendBookmark, depth int) {
			for _, n := range ns {
				res.Bookmarks = append(res.Bookmarks, fmt.Sprintf("%d|%s|%d", depth, n.Label, n.PageIndex))
				walk(n.Children, depth+1)
			}
		}
		walk(rec.Bookmarks, 0)
		res.Meta = rec.Meta
		res.Images = rec.Images
		res.Attach = rec.Attach
		res.Embedded = rec.Embedded
		event(0x7ace, simrt.HashString(res.Trace))
		if rn.spec.Dump != "" {
			os.MkdirAll(rn.spec.Dump, 0o755)
			os.WriteFile(filepath.Join(rn.spec.Dump, fmt.Sprintf("%s.t%d.%s.trace", rn.spec.ID, rn.task, op.ID)), []byte(strings.Join(rec.lines, "\n")+"\n"), 0o644)
		}
	default:
		panic("harness: unknown op " + op.Op)
	}
}

func layoutWords(p *bo.PageBox) []string {
	var out []string
	var walk func(b bo.Box)
	walk = func(b bo.Box) {
		if tb, ok := b.(*bo.TextBox); ok {
			// (hidden text is laid out but is not rendered text: it is not drawn)
			if tb.Style == nil || tb.Style.GetVisibility() == "visible" {
				out = append(out, splitWords(string(tb.Text))...)
			}
		}
		for _, c := range b.Box().Children {
			walk(c)
		}
	}
	walk(p)
	return out
}

func pageGeom(p *bo.PageBox) PageGeom {
	g := PageGeom{
		W: float64(p.MarginWidth()), H: float64(p.MarginHeight()),
		MT: float64(p.MarginTop.V()), MR: float64(p.MarginRight.V()), MB: float64(p.MarginBottom.V()), ML: float64(p.MarginLeft.V()),
		PageType: fmt.Sprintf("%v", p.PageType),
	}
	g.ContentBottom = float64(p.ContentBoxY() + p.Height.V())
	// main flow: the first child of the page box is the root element box
	var first string
	var maxBottom float64
	var walk func(b bo.Box, inFlow bool)
	walk = func(b bo.Box, inFlow bool) {
		if !inFlow {
			return
		}
		if lb, ok := b.(*bo.LineBox); ok {
			bottom := float64(lb.PositionY + lb.Height.V())
			if bottom > maxBottom {
				maxBottom = bottom
			}
		}
		if tb, ok := b.(*bo.TextBox); ok && first == "" {
			if w := splitWords(string(tb.Text)); len(w) > 0 {
				first = w[0]
			}
		}
		for _, c := range b.Box().Children {
			cf := c.Box()
			walk(c, cf.IsInNormalFlow())
		}
	}
	if len(p.Children) > 0 {
		walk(p.Children[0], true)
	}
	g.FirstWord = first
	g.MaxLineBottom = maxBottom
	for _, c := range p.Children {
		if fa, ok := c.(*bo.FootnoteAreaBox); ok && len(fa.Children) != 0 {
			g.FootnoteTop = float64(fa.PositionY)
		}
	}
	if len(p.Children) > 0 {
		root := p.Children[0]
		for _, d := range bo.Descendants(root) {
			if d == root || !bo.BlockT.IsInstance(d) || d.Box().Element == nil || !d.Box().IsInNormalFlow() {
				continue
			}
			if tag := d.Box().Element.Data; tag == "html" || tag == "body" {
				continue // stretched to the page
			}
			if b := float64(d.Box().PositionY + d.Box().MarginHeight()); b > g.MaxBlockBottom {
				g.MaxBlockBottom = b
			}
		}
	}
	return g
}


// exactBytes returns txt in a slice with no spare capacity: a parser reading past the end of
// its input then panics (slice bounds) instead of silently reading whatever the allocator
// left after it - which it would with []byte(txt), whose capacity is rounded to a size class.
func exactBytes(txt string) []byte {
	b := make([]byte, len(txt))
	copy(b, txt)
	return b[:len(txt):len(txt)]
}

// runEntry feeds text to one of the parsing entry points named by C07's observe_at.
// Errors / nil results are fine; only panics, fatal errors and endless loops count.
func runEntry(kind, txt string) int {
	switch kind {
	case "selector":
		g, _ := selector.ParseGroup(txt)
		for _, sl := range g {
			_ = sl.String()
			_ = sl.Specificity()
		}
		if s1, err := selector.Parse(txt); err == nil && s1 != nil {
			_ = s1.String()
		}
		return len(g)
	case "stylesheet":
		_, _ = tree.NewCSSDefault(utils.InputString(txt))
		return len(pa.ParseStylesheetBytes(exactBytes(txt), false, false))
	case "declarations":
		decls := pa.ParseBlocksContentsString(txt)
		out := validation.PreprocessDeclarations("http://sim.test/entry/", decls)
		_ = pa.ParseDeclarationListString(txt, true, true)
		return len(out)
	case "tokens":
		toks := pa.Tokenize(exactBytes(txt), false)
		_ = pa.Serialize(toks)
		_ = pa.ParseOneComponentValue(toks)
		_ = pa.ParseOneDeclaration(toks)
		_ = pa.ParseNth(toks)
		_ = pa.ParseRuleList(toks, true, true)
		return len(toks)
	case "color":
		_ = pa.ParseColorString(txt)
		return 1
	case "svg":
		loader := func(url string) (backend.Image, error) { return nil, fmt.Errorf("no nested images in entry mode") }
		fetch := func(url string) (utils.RemoteRessource, error) { return utils.RemoteRessource{}, fmt.Errorf("no fetch in entry mode") }
		img, err := svg.Parse(strings.NewReader(txt), "http://sim.test/entry/x.svg", loader, fetch)
		if err == nil && img != nil {
			_, _ = img.DisplayedSize()
			_ = img.ViewBox()
		}
		return 1
	case "dataurl":
		r, err := utils.DefaultUrlFetcher(txt)
		if err == nil && r.Content != nil {
			return r.Content.Len()
		}
		return 0
	case "fontface":
		decls := pa.ParseBlocksContentsString(txt)
		_ = validation.PreprocessFontFaceDescriptors("http://sim.test/entry/", decls)
		_ = validation.PreprocessCounterStyleDescriptors("http://sim.test/entry/", decls)
		return len(decls)
	}
	panic("harness: unknown entry kind " + kind)
}
