// simworker executes run specs (one JSON per stdin line) against the webrender tree
// it was built with, and prints one result line per run:
//
//	BEGIN <id>
//	RESULT <json>
//
// All library code is real; the stubs are the ones in site.go / backend.go.
package main

import (
	"bufio"
	"encoding/json"
	"flag"
	"fmt"
	"io"
	"math"
	"reflect"
	"net/http"
	"os"
	"runtime/debug"
	"sync"
	"sync/atomic"
	"time"

	"github.com/benoitkugler/webrender/backend"
	"github.com/benoitkugler/webrender/logger"
	"github.com/benoitkugler/webrender/verifsim/simrt"
)

type backendBookmark = backend.BookmarkNode

type countWriter struct {
	n  int
	mu sync.Mutex
}

func (c *countWriter) Write(p []byte) (int, error) {
	c.mu.Lock()
	c.n++
	c.mu.Unlock()
	return len(p), nil
}

var (
	nSites   int
	warnings = &countWriter{}
)

func runSpec(spec *Spec) *Result {
	res := &Result{ID: spec.ID}
	sm := &seams{faults: spec.Faults, fired: map[string]int{}}
	resetProcessGlobals()
	freeMode = spec.Free
	simrt.Reset(spec.Order, spec.Budget, nSites)
	simrt.SetDisk(simDisk{sm})
	tr := &simTransport{sm: sm, transient: map[string]int{}}
	http.DefaultClient.Transport = tr
	warnings.n = 0
	var orderLog []string
	if spec.Dump != "" {
		simrt.OrderLog = &orderLog
	} else {
		simrt.OrderLog = nil
	}

	shared := newStore(nil)
	rn0 := &runner{spec: spec, sm: sm, task: -1, st: shared}
	for _, op := range spec.Shared {
		rn0.exec(op)
	}
	res.Ops = append(res.Ops, rn0.out...)

	runners := make([]*runner, len(spec.Tasks))
	for i := range spec.Tasks {
		runners[i] = &runner{spec: spec, sm: sm, task: i, st: newStore(shared)}
	}
	switch {
	case len(spec.Tasks) == 1:
		for _, op := range spec.Tasks[0] {
			runners[0].exec(op)
		}
	case spec.Free:
		var wg sync.WaitGroup
		for i := range spec.Tasks {
			wg.Add(1)
			go func(i int) {
				defer wg.Done()
				for _, op := range spec.Tasks[i] {
					runners[i].exec(op)
				}
			}(i)
		}
		wg.Wait()
	case len(spec.Tasks) > 1:
		fns := make([]func(), len(spec.Tasks))
		for i := range spec.Tasks {
			i := i
			fns[i] = func() {
				for _, op := range spec.Tasks[i] {
					runners[i].exec(op)
				}
			}
		}
		simrt.RunTasks(fns, spec.Preempt, spec.PreemptW)
	}
	for _, rn := range runners {
		res.Ops = append(res.Ops, rn.out...)
	}
	res.Steps = simrt.Steps()
	res.EventHash = fmt.Sprintf("%016x", simrt.EventHash)
	res.Fetches = sm.fetches
	res.FaultsFired = sm.fired
	res.Sites = simrt.SiteStats
	res.Unregistered = simrt.Unregistered
	res.Switches = simrt.Switches
	res.LockOps = simrt.LockOps
	res.GWrites = simrt.GWrites
	res.GWTotal = simrt.GWTotal
	if !spec.Free {
		res.MapConflicts = simrt.MapConflicts
	}
	for _, h := range simrt.Hit {
		if h != 0 {
			res.FuncsHit++
		}
	}
	res.Warnings = warnings.n
	res.Disk = simrt.DiskLog
	if spec.Dump != "" {
		os.MkdirAll(spec.Dump, 0o755)
		f, _ := os.Create(spec.Dump + "/" + spec.ID + ".events")
		if f != nil {
			w := bufio.NewWriter(f)
			for _, l := range orderLog {
				fmt.Fprintln(w, l)
			}
			for _, fr := range sm.fetches {
				fmt.Fprintf(w, "fetch op=%s seq=%d url=%s outcome=%s len=%d\n", fr.Op, fr.Seq, fr.URL, fr.Outcome, fr.Len)
			}
			for _, s := range simrt.Switches {
				fmt.Fprintf(w, "switch step=%d from=%d to=%d\n", s[0], s[1], s[2])
			}
			w.Flush()
			f.Close()
		}
	}
	return res
}

// sanitizeFloats replaces NaN and +-Inf in every float field reachable from v by +-1e300
// (JSON cannot carry them) and returns the paths of the fields it changed.
func sanitizeFloats(v reflect.Value, path string, out []string) []string {
	switch v.Kind() {
	case reflect.Ptr, reflect.Interface:
		if !v.IsNil() {
			out = sanitizeFloats(v.Elem(), path, out)
		}
	case reflect.Struct:
		for i := 0; i < v.NumField(); i++ {
			if v.Type().Field(i).PkgPath == "" { // exported
				out = sanitizeFloats(v.Field(i), path+"."+v.Type().Field(i).Name, out)
			}
		}
	case reflect.Slice, reflect.Array:
		for i := 0; i < v.Len(); i++ {
			out = sanitizeFloats(v.Index(i), fmt.Sprintf("%s[%d]", path, i), out)
		}
	case reflect.Map:
		if v.Type().Elem().Kind() == reflect.Float64 || v.Type().Elem().Kind() == reflect.Float32 {
			for _, k := range v.MapKeys() {
				f := v.MapIndex(k).Float()
				if math.IsNaN(f) || math.IsInf(f, 0) {
					v.SetMapIndex(k, reflect.ValueOf(clampFloat(f)).Convert(v.Type().Elem()))
					out = append(out, fmt.Sprintf("%s[%v]", path, k))
				}
			}
		}
	case reflect.Float32, reflect.Float64:
		if f := v.Float(); (math.IsNaN(f) || math.IsInf(f, 0)) && v.CanSet() {
			v.SetFloat(clampFloat(f))
			if len(out) < 20 {
				out = append(out, fmt.Sprintf("%s=%v", path, f))
			}
		}
	}
	return out
}

func clampFloat(f float64) float64 {
	switch {
	case math.IsInf(f, 1):
		return 1e300
	case math.IsInf(f, -1):
		return -1e300
	}
	return -1e301 // NaN
}

func main() {
	flag.StringVar(&corpusDir, "corpus", "/verif/corpus", "corpus directory")
	flag.IntVar(&nSites, "nsites", 8192, "number of instrumentation sites")
	maxStack := flag.Int("maxstack", 256<<20, "max goroutine stack in bytes")
	flag.Parse()
	debug.SetMaxStack(*maxStack)
	logger.ProgressLogger.SetOutput(io.Discard)
	logger.WarningLogger.SetOutput(warnings)
	if os.Getenv("VERIFSIM_QUIET") != "" {
		// another process-wide setting that is not an input of a render: warnings discarded
		logger.WarningLogger.SetOutput(io.Discard)
	}

	in := bufio.NewReaderSize(os.Stdin, 1<<20)
	out := bufio.NewWriter(os.Stdout)
	// heartbeat: while a run is in progress, one "HB <steps>" line per second. A run whose
	// step counter stops moving is blocked (a goroutine parked on a lock or channel the
	// simulator does not own makes no step); the supervisor need not wait for its watchdog.
	var outMu sync.Mutex
	var running int32
	go func() {
		for range time.Tick(time.Second) {
			if atomic.LoadInt32(&running) == 1 {
				outMu.Lock()
				fmt.Fprintf(out, "HB %d\n", simrt.Steps())
				out.Flush()
				outMu.Unlock()
			}
		}
	}()
	for {
		line, err := in.ReadBytes('\n')
		if len(line) > 1 {
			var spec Spec
			if jerr := json.Unmarshal(line, &spec); jerr != nil {
				fmt.Fprintf(out, "BADSPEC %v\n", jerr)
				out.Flush()
			} else {
				outMu.Lock()
				fmt.Fprintf(out, "BEGIN %s\n", spec.ID)
				out.Flush()
				outMu.Unlock()
				atomic.StoreInt32(&running, 1)
				res := runSpec(&spec)
				atomic.StoreInt32(&running, 0)
				b, merr := json.Marshal(res)
				if merr != nil {
					// non-finite numbers (a page geometry of +Inf ...) cannot be encoded: clamp them
					// and say where they were
					res.NonFinite = sanitizeFloats(reflect.ValueOf(res), "result", nil)
					b, merr = json.Marshal(res)
				}
				if merr != nil {
					b, _ = json.Marshal(&Result{ID: spec.ID, Unregistered: 0, NonFinite: []string{"result not serialisable: " + merr.Error()}})
				}
				outMu.Lock()
				out.WriteString("RESULT ")
				out.Write(b)
				out.WriteString("\n")
				out.Flush()
				outMu.Unlock()
			}
		}
		if err != nil {
			return
		}
	}
}
