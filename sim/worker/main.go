// simworker executes run specs (one JSON per stdin line) against the webrender tree
// it was built with, and prints one result line per run:
//
//	BEGIN <id>
//	RESULT <json>
//
// All library code is real; the stubs are the ones in site.go / backend.go.
package main

import (
	"bufio"
	"encoding/json"
	"flag"
	"fmt"
	"io"
	"net/http"
	"os"
	"runtime/debug"
	"sync"

	"github.com/benoitkugler/webrender/backend"
	"github.com/benoitkugler/webrender/logger"
	"github.com/benoitkugler/webrender/verifsim/simrt"
)

type backendBookmark = backend.BookmarkNode

type countWriter struct {
	n  int
	mu sync.Mutex
}

func (c *countWriter) Write(p []byte) (int, error) {
	c.mu.Lock()
	c.n++
	c.mu.Unlock()
	return len(p), nil
}

var (
	nSites   int
	warnings = &countWriter{}
)

func runSpec(spec *Spec) *Result {
	res := &Result{ID: spec.ID}
	sm := &seams{faults: spec.Faults, fired: map[string]int{}}
	resetProcessGlobals()
	freeMode = spec.Free
	simrt.Reset(spec.Order, spec.Budget, nSites)
	simrt.SetDisk(simDisk{sm})
	tr := &simTransport{sm: sm, transient: map[string]int{}}
	http.DefaultClient.Transport = tr
	warnings.n = 0
	var orderLog []string
	if spec.Dump != "" {
		simrt.OrderLog = &orderLog
	} else {
		simrt.OrderLog = nil
	}

	shared := newStore(nil)
	rn0 := &runner{spec: spec, sm: sm, task: -1, st: shared}
	for _, op := range spec.Shared {
		rn0.exec(op)
	}
	res.Ops = append(res.Ops, rn0.out...)

	runners := make([]*runner, len(spec.Tasks))
	for i := range spec.Tasks {
		runners[i] = &runner{spec: spec, sm: sm, task: i, st: newStore(shared)}
	}
	switch {
	case len(spec.Tasks) == 1:
		for _, op := range spec.Tasks[0] {
			runners[0].exec(op)
		}
	case spec.Free:
		var wg sync.WaitGroup
		for i := range spec.Tasks {
			wg.Add(1)
			go func(i int) {
				defer wg.Done()
				for _, op := range spec.Tasks[i] {
					runners[i].exec(op)
				}
			}(i)
		}
		wg.Wait()
	case len(spec.Tasks) > 1:
		fns := make([]func(), len(spec.Tasks))
		for i := range spec.Tasks {
			i := i
			fns[i] = func() {
				for _, op := range spec.Tasks[i] {
					runners[i].exec(op)
				}
			}
		}
		simrt.RunTasks(fns, spec.Preempt, spec.PreemptW)
	}
	for _, rn := range runners {
		res.Ops = append(res.Ops, rn.out...)
	}
	res.Steps = simrt.Steps()
	res.EventHash = fmt.Sprintf("%016x", simrt.EventHash)
	res.Fetches = sm.fetches
	res.FaultsFired = sm.fired
	res.Sites = simrt.SiteStats
	res.Unregistered = simrt.Unregistered
	res.Switches = simrt.Switches
	res.LockOps = simrt.LockOps
	res.GWrites = simrt.GWrites
	res.GWTotal = simrt.GWTotal
	for _, h := range simrt.Hit {
		if h != 0 {
			res.FuncsHit++
		}
	}
	res.Warnings = warnings.n
	res.Disk = simrt.DiskLog
	if spec.Dump != "" {
		os.MkdirAll(spec.Dump, 0o755)
		f, _ := os.Create(spec.Dump + "/" + spec.ID + ".events")
		if f != nil {
			w := bufio.NewWriter(f)
			for _, l := range orderLog {
				fmt.Fprintln(w, l)
			}
			for _, fr := range sm.fetches {
				fmt.Fprintf(w, "fetch op=%s seq=%d url=%s outcome=%s len=%d\n", fr.Op, fr.Seq, fr.URL, fr.Outcome, fr.Len)
			}
			for _, s := range simrt.Switches {
				fmt.Fprintf(w, "switch step=%d from=%d to=%d\n", s[0], s[1], s[2])
			}
			w.Flush()
			f.Close()
		}
	}
	return res
}

func main() {
	flag.StringVar(&corpusDir, "corpus", "/verif/corpus", "corpus directory")
	flag.IntVar(&nSites, "nsites", 8192, "number of instrumentation sites")
	maxStack := flag.Int("maxstack", 256<<20, "max goroutine stack in bytes")
	flag.Parse()
	debug.SetMaxStack(*maxStack)
	logger.ProgressLogger.SetOutput(io.Discard)
	logger.WarningLogger.SetOutput(warnings)

	in := bufio.NewReaderSize(os.Stdin, 1<<20)
	out := bufio.NewWriter(os.Stdout)
	for {
		line, err := in.ReadBytes('\n')
		if len(line) > 1 {
			var spec Spec
			if jerr := json.Unmarshal(line, &spec); jerr != nil {
				fmt.Fprintf(out, "BADSPEC %v\n", jerr)
				out.Flush()
			} else {
				fmt.Fprintf(out, "BEGIN %s\n", spec.ID)
				out.Flush()
				res := runSpec(&spec)
				b, _ := json.Marshal(res)
				out.WriteString("RESULT ")
				out.Write(b)
				out.WriteString("\n")
				out.Flush()
			}
		}
		if err != nil {
			return
		}
	}
}
