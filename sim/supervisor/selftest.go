package main

import (
	"fmt"
	"os"
	"os/exec"
	"sort"
	"strconv"
	"time"
)

// cmdSelftest proves the simulator itself (DESIGN §2.8):
//   - determinism: a sample of specs of every mode is executed in >= 30 worker
//     processes at GOMAXPROCS 1, 4 and 16; all event-log hashes and traces of one
//     spec must be equal;
//   - rewriter transparency: for every scenario, K native (un-rewritten) renders must
//     agree among themselves and with the rewritten build under canonical order.
func cmdSelftest() int {
	c, code := newCtx("selftest", "quick", false)
	if c == nil {
		return code
	}
	rng := stream(c.Seed, "selftest")
	var specs []*Spec
	for i, sc := range c.Corpus.List {
		cfg := defaultCfg()
		if K := sc.Expect.Probes; K > 0 {
			all := subsets(K)
			cfg.Probes = all[rng.Intn(len(all))]
		}
		sp := soloSpec("st/"+sc.Name, sc, cfg)
		switch i % 4 {
		case 1:
			sp.Order = OrderPlan{Mode: "reverse"}
		case 2:
			sp.Order = OrderPlan{Mode: "shuffle", Seed: rng.Next()}
		case 3:
			sp.Order = OrderPlan{Mode: "rotate", Seed: rng.Next()}
		}
		if i%5 == 0 {
			names := append([]string{sc.Main}, sc.FileNames()...)
			sp.Faults = []Fault{faultOn(rng, sc, names[rng.Intn(len(names))], faultKinds[rng.Intn(len(faultKinds))])}
		}
		specs = append(specs, sp)
	}
	// interleavings
	for i := 0; i < 12; i++ {
		a, b := c.Corpus.List[rng.Intn(len(c.Corpus.List))], c.Corpus.List[rng.Intn(len(c.Corpus.List))]
		sp := &Spec{ID: fmt.Sprintf("st/il%d", i), Order: OrderPlan{Mode: "shuffle", Seed: rng.Next()}, Tasks: [][]Op{docOps(a, defaultCfg(), "", false), docOps(b, defaultCfg(), "", false)}}
		for j := 0; j < 4; j++ {
			sp.Preempt = append(sp.Preempt, Preempt{Step: 1 + rng.Next()%400000, To: rng.Intn(2)})
		}
		sort.Slice(sp.Preempt, func(x, y int) bool { return sp.Preempt[x].Step < sp.Preempt[y].Step })
		specs = append(specs, sp)
	}
	sig := func(r *Result) string {
		s := r.EventHash + fmt.Sprint(r.Steps)
		for _, o := range r.Ops {
			s += "|" + o.Status + ":" + o.Trace + ":" + o.Frame
		}
		return s + r.FatalClass
	}
	bad := 0
	base := map[string]string{}
	nproc := 0
	for _, gmp := range []int{1, 4, 16} {
		for rep := 0; rep < 2; rep++ {
			pool := NewPool(c.Build.SimWorker, c.Pool.args, []string{"GOMAXPROCS=" + strconv.Itoa(gmp)}, 6, 120*time.Second)
			// shuffle the assignment so that every process sees a different history of specs
			order := make([]int, len(specs))
			for i := range order {
				order[i] = i
			}
			shuffleInts(rng, order)
			sh := make([]*Spec, len(specs))
			for i, j := range order {
				sh[i] = specs[j]
			}
			res := pool.Run(sh, nil)
			nproc += 6
			for i, r := range res {
				id := sh[i].ID
				s := sig(r)
				if prev, ok := base[id]; ok && prev != s {
					bad++
					fmt.Printf("NONDETERMINISM spec=%s GOMAXPROCS=%d: %s vs %s\n", id, gmp, prev, s)
				} else {
					base[id] = s
				}
			}
		}
	}
	fmt.Printf("determinism: %d specs x %d process batches (%d worker processes, GOMAXPROCS 1/4/16): %d divergences\n", len(specs), 6, nproc, bad)

	// rewriter transparency
	nat := c.Build.Dir + "/nativeworker"
	if _, err := os.Stat(nat); err != nil {
		cmd := exec.Command(verifDir+"/build.sh", c.Build.Dir, "native")
		cmd.Stdout, cmd.Stderr = os.Stderr, os.Stderr
		if err := cmd.Run(); err != nil {
			fmt.Println("INFRA: native build failed")
			return 2
		}
	}
	npool := NewPool(nat, c.Pool.args, nil, c.Pool.n, 120*time.Second)
	var canon []*Spec
	for _, sc := range c.Corpus.List {
		canon = append(canon, soloSpec("tr/"+sc.Name, sc, defaultCfg()))
	}
	simRes := c.Pool.Run(canon, nil)
	mismatch, unstable := 0, 0
	const K = 4
	natRes := make([][]*Result, K)
	for k := 0; k < K; k++ {
		natRes[k] = npool.Run(canon, nil)
	}
	for i := range canon {
		agree := true
		for k := 1; k < K; k++ {
			if outcomeSig(natRes[k][i].op("t")) != outcomeSig(natRes[0][i].op("t")) {
				agree = false
			}
		}
		if !agree {
			unstable++
			fmt.Printf("NATIVE-UNSTABLE %s: native renders disagree among themselves (real map-order dependence; C15 must find it)\n", canon[i].ID)
			continue
		}
		if outcomeSig(natRes[0][i].op("t")) != outcomeSig(simRes[i].op("t")) {
			mismatch++
			fmt.Printf("TRANSPARENCY %s: rewritten/canon %s vs native %s\n", canon[i].ID, outcomeSig(simRes[i].op("t")), outcomeSig(natRes[0][i].op("t")))
		}
	}
	fmt.Printf("rewriter transparency: %d scenarios, %d native-unstable, %d mismatches between rewritten(canon) and native\n", len(canon), unstable, mismatch)
	if bad > 0 || mismatch > 0 {
		return 1
	}
	return 0
}
