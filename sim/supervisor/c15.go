package main

// C15 — rendering is deterministic and renders do not interfere (DESIGN.md §7).

import (
	"fmt"
	"sort"
	"strings"
	"time"
)

type refKey struct {
	Scenario string
	Cfg      string
}

type Ref struct {
	Spec   *Spec
	Res    *Result
	Write  *OpResult
	Sc     *Scenario
	Cfg    Cfg
	Relevant []int // range sites visited with >= 2 keys
}

// references renders every (scenario, cfg) alone, canonical order, no fault.
func (c *Ctx) references(scs []*Scenario, cfgs func(*Scenario) []Cfg) map[refKey]*Ref {
	var specs []*Spec
	var refs []*Ref
	for _, sc := range scs {
		for _, cfg := range cfgs(sc) {
			sp := soloSpec(fmt.Sprintf("ref/%s/%s", sc.Name, cfg), sc, cfg)
			sp.Order.Pin = nil
			sp.Budget = 400000000
			// "rendered alone in a fresh process": state that a process writes only once (a
			// lazily filled package-level table) is then written, and counted, in this run
			sp.Fresh = true
			specs = append(specs, sp)
			refs = append(refs, &Ref{Spec: sp, Sc: sc, Cfg: cfg})
		}
	}
	results := c.runBatch(specs)
	out := map[refKey]*Ref{}
	for i, r := range results {
		refs[i].Res = r
		refs[i].Write = r.op("t")
		for id, st := range r.Sites {
			if st.Relevant > 0 {
				refs[i].Relevant = append(refs[i].Relevant, id)
			}
		}
		sort.Ints(refs[i].Relevant)
		out[refKey{refs[i].Sc.Name, refs[i].Cfg.String()}] = refs[i]
	}
	return out
}

func defaultCfg() Cfg { return Cfg{Engine: "pango", Zoom: 1} }

func cfgsFor(tier string) func(*Scenario) []Cfg {
	return func(sc *Scenario) []Cfg {
		out := []Cfg{defaultCfg()}
		if tier == "thorough" {
			out = append(out, Cfg{Engine: "pango", Hints: true, Zoom: 1.5})
			out = append(out, Cfg{Engine: "pango", Zoom: 0.5, Input: "reader", Chunk: 7})
		}
		for _, e := range sc.Engines {
			if e == "gotext" {
				out = append(out, Cfg{Engine: "gotext", Zoom: 1})
			}
		}
		return out
	}
}

func (c *Ctx) pinnedIDs() []int {
	var out []int
	for _, n := range c.Known.PinnedSites(c.Prop) {
		if s, ok := c.Build.ByName[n]; ok {
			out = append(out, s.ID)
		}
	}
	sort.Ints(out)
	return out
}

func checkC15(c *Ctx) {
	c.Ev.Level = "exploration"
	c.Ev.Rule = "one case = one simulated run (scenario x config x {map-order plan | history of API ops on shared objects | interleaving of 2-4 token-scheduled renders | free-running -race round}); non-trivial = the run applied at least one non-identity permutation at an order-relevant range site, or executed >= 2 renders in one process, or performed >= 1 task switch; distinct = distinct (scenario, config, plan signature)"
	c.Ev.Assume = []string{
		"documents are the frozen corpus under /verif/corpus; seeds explore schedules, histories and interleavings, not documents",
		"reference = same inputs rendered alone in a fresh process under canonical map order",
		"the race probe (stage E) observes real goroutine schedules under the race detector: monitoring, not simulation; it is labelled so",
		"iteration order inside the textprocessing / go-text dependencies is not controlled (only the same-spec-twice stage would notice it)",
	}
	scs := c.Corpus.List
	refs := c.references(scs, cfgsFor(c.Tier))
	c.Logf("references: %d", len(refs))

	// every reference must itself be crash-free to be usable; crashes are C01's
	usable := map[refKey]*Ref{}
	var keys []refKey
	for k, r := range refs {
		if cl, _, _ := crashOf(r.Res); cl != "" || r.Write == nil || r.Write.Status != "ok" {
			c.Ev.Probes["reference_unusable"]++
			continue
		}
		usable[k] = r
		keys = append(keys, k)
	}
	sort.Slice(keys, func(i, j int) bool {
		if keys[i].Scenario != keys[j].Scenario {
			return keys[i].Scenario < keys[j].Scenario
		}
		return keys[i].Cfg < keys[j].Cfg
	})

	c.stageTwice(usable, keys)
	c.stageInitOrder(usable, keys)
	c.stageMapOrder(usable, keys)
	c.stageKnownMapOrder(usable, keys)
	c.stageHistories(usable, keys)
	c.stageRecovery(usable, keys)
	c.stageInterleave(usable, keys)
	c.stageRace(usable, keys)
}

// ---- 7.2 same spec twice, new process

// otherEnv: the environment of the re-run processes of stageTwice (and of their replay).
var otherEnv = []string{"LANG=fr_FR.UTF-8", "LC_ALL=fr_FR.UTF-8", "LC_CTYPE=fr_FR.UTF-8", "LANGUAGE=fr:de", "TZ=Pacific/Kiritimati", "HOME=/nonexistent-verif-home", "USER=someone-else", "XDG_CACHE_HOME=/nonexistent-verif-cache", "XDG_CONFIG_HOME=/nonexistent-verif-config", "VERIFSIM_QUIET=1"}

func (c *Ctx) stageTwice(refs map[refKey]*Ref, keys []refKey) {
	var specs []*Spec
	var ks []refKey
	rng := stream(c.Seed, "twice")
	for _, k := range keys {
		if c.Tier == "quick" && rng.Intn(3) != 0 && refs[k].Sc.Family != "hyph" && refs[k].Sc.Family != "feat" {
			continue // (the families whose documents depend on language and locale data are always re-run)
		}
		sp := cloneSpec(refs[k].Spec)
		sp.ID = "twice/" + k.Scenario + "/" + k.Cfg
		// the second process also lives in another environment: locale, time zone, home and
		// working directory are not inputs of a render
		sp.Env = otherEnv
		specs = append(specs, sp)
		ks = append(ks, k)
	}
	// fresh processes: run each alone in a new worker
	results := make([]*Result, len(specs))
	type job struct{ i int }
	sem := make(chan struct{}, c.Pool.n)
	done := make(chan job, len(specs))
	for i := range specs {
		go func(i int) {
			sem <- struct{}{}
			results[i] = c.Pool.RunFresh(specs[i])
			<-sem
			done <- job{i}
		}(i)
	}
	for range specs {
		<-done
	}
	for i, r := range results {
		c.Ev.Absorb(c, specs[i], r)
		c.Ev.Distinct("twice|" + specs[i].ID)
		ref := refs[ks[i]]
		if r.EventHash != ref.Res.EventHash || outcomeSig(r.op("t")) != outcomeSig(ref.Write) {
			d := c.firstTraceDiff(ref.Spec, specs[i], 0, 0, "t", "t")
			c.Findings = append(c.Findings, &Finding{Class: "rerun-differs", Scenario: ks[i].Scenario, Where: callKind(d),
				Oracle: "same spec, two fresh processes (the second one under another locale, time zone, home and working directory), canonical map order: event log hash and trace must be equal",
				Detail: fmt.Sprintf("event hash %s vs %s; %s vs %s; %s; uncontrolled sources reported by the rewriter: %v", ref.Res.EventHash, r.EventHash, outcomeSig(ref.Write), outcomeSig(r.op("t")), d, c.Build.Uncontrolled),
				Spec: specs[i], Spec2: ref.Spec, Expect: "differs-between-processes"})
		}
	}
	c.Logf("stage twice: %d re-runs in fresh processes", len(specs))
}

// ---- init-time map order: package init() functions range over maps too (tables of
// validators, colours, computers...). Whole worker processes are started under a
// permuted init-time order; every reference must still produce its trace.
func (c *Ctx) stageInitOrder(refs map[refKey]*Ref, keys []refKey) {
	rng := stream(c.Seed, "initorder")
	modes := []string{"reverse", fmt.Sprintf("shuffle:%d", rng.Next()%1000000)}
	if c.Tier == "thorough" {
		for i := 0; i < 6; i++ {
			modes = append(modes, fmt.Sprintf("shuffle:%d", rng.Next()%1000000), fmt.Sprintf("rotate:%d", rng.Next()%1000000))
		}
	}
	nBad := 0
	for _, m := range modes {
		pool := NewPool(c.Build.SimWorker, c.Pool.args, []string{"VERIFSIM_INIT_ORDER=" + m}, c.Pool.n, c.Pool.timeout)
		var specs []*Spec
		var ks []refKey
		for _, k := range keys {
			if c.Tier == "quick" && rng.Intn(2) == 0 {
				continue
			}
			sp := cloneSpec(refs[k].Spec)
			sp.ID = "init/" + m + "/" + k.Scenario + "/" + k.Cfg
			specs = append(specs, sp)
			ks = append(ks, k)
		}
		results := pool.Run(specs, nil)
		c.Pool.Runs += pool.Runs
		for i, r := range results {
			c.Ev.Absorb(c, specs[i], r)
			c.Ev.Distinct(specs[i].ID)
			if outcomeSig(r.op("t")) == outcomeSig(refs[ks[i]].Write) {
				continue
			}
			nBad++
			if nBad > 5 {
				continue
			}
			d := c.firstTraceDiff(refs[ks[i]].Spec, specs[i], 0, 0, "t", "t")
			c.Findings = append(c.Findings, &Finding{Class: "init-order", Scenario: ks[i].Scenario, Where: callKind(d),
				Oracle: "trace must not depend on the map iteration order inside package init() functions",
				Detail: fmt.Sprintf("worker started with VERIFSIM_INIT_ORDER=%s: %s vs reference %s (the diff shown is recomputed under canonical init order and may be empty; replay with the env var)", m, outcomeSig(r.op("t")), outcomeSig(refs[ks[i]].Write)),
				Spec: specs[i], Spec2: refs[ks[i]].Spec, Expect: "init-order " + m})
		}
	}
	c.Ev.Probes["init_order_process_modes"] = len(modes)
	c.Logf("stage init-order: %d process modes, %d runs differing", len(modes), nBad)
}

// ---- 7.1 map-iteration schedules

type planCase struct {
	key  refKey
	spec *Spec
}

func (c *Ctx) stageMapOrder(refs map[refKey]*Ref, keys []refKey) {
	rng := stream(c.Seed, "maporder")
	pin := c.pinnedIDs()
	perRef := 10
	if c.Tier == "thorough" {
		perRef = 40
	}
	var cases []planCase
	mk := func(k refKey, label string, plan OrderPlan) {
		sp := cloneSpec(refs[k].Spec)
		sp.ID = fmt.Sprintf("mo/%s/%s/%s", k.Scenario, k.Cfg, label)
		plan.Pin = pin
		sp.Order = plan
		cases = append(cases, planCase{k, sp})
	}
	for _, k := range keys {
		ref := refs[k]
		if len(ref.Relevant) == 0 {
			continue
		}
		mk(k, "reverse-all", OrderPlan{Mode: "reverse"})
		for i := 0; i < perRef; i++ {
			seed := rng.Next()
			switch rng.Intn(4) {
			case 0:
				mk(k, fmt.Sprintf("shuffle-all-%d", i), OrderPlan{Mode: "shuffle", Seed: seed})
			case 1:
				mk(k, fmt.Sprintf("rotate-all-%d", i), OrderPlan{Mode: "rotate", Seed: seed})
			default:
				// swarm: random subset of the relevant sites, one mode
				var sub []int
				for _, s := range ref.Relevant {
					if rng.Intn(3) == 0 {
						sub = append(sub, s)
					}
				}
				if len(sub) == 0 {
					sub = []int{ref.Relevant[rng.Intn(len(ref.Relevant))]}
				}
				mode := []string{"shuffle", "reverse", "rotate"}[rng.Intn(3)]
				mk(k, fmt.Sprintf("swarm-%s-%d", mode, i), OrderPlan{Mode: mode, Seed: seed, Sites: sub})
			}
		}
		if c.Tier == "thorough" {
			// systematic single-site sweep: reach must not depend on luck
			for _, s := range ref.Relevant {
				mk(k, fmt.Sprintf("single-%d-reverse", s), OrderPlan{Mode: "reverse", Sites: []int{s}})
				for j := 0; j < 4; j++ {
					mk(k, fmt.Sprintf("single-%d-shuffle%d", s, j), OrderPlan{Mode: "shuffle", Seed: rng.Next(), Sites: []int{s}})
				}
			}
		}
	}
	c.runOrderCases(refs, cases, "maporder")
}

func (c *Ctx) runOrderCases(refs map[refKey]*Ref, cases []planCase, class string) {
	const chunk = 512
	nDiff := 0
	for off := 0; off < len(cases); off += chunk {
		if c.TimeLeft() < 0 && off > 0 {
			c.Ev.Extra["maporder_cases_skipped_for_time"] = len(cases) - off
			break
		}
		end := off + chunk
		if end > len(cases) {
			end = len(cases)
		}
		specs := make([]*Spec, 0, end-off)
		for _, pc := range cases[off:end] {
			specs = append(specs, pc.spec)
		}
		results := c.runBatch(specs)
		for i, r := range results {
			pc := cases[off+i]
			ref := refs[pc.key]
			permuted := false
			for _, st := range r.Sites {
				if st.Permuted > 0 {
					permuted = true
				}
			}
			if permuted {
				c.Ev.Distinct(pc.spec.ID)
			}
			got := outcomeSig(r.op("t"))
			if cl, _, _ := crashOf(r); cl != "" && r.op("t") == nil {
				got = cl
			}
			if got == outcomeSig(ref.Write) {
				continue
			}
			nDiff++
			if nDiff > 40 {
				continue // enough to minimise; the rest are counted
			}
			c.Findings = append(c.Findings, c.minimizeOrder(ref, pc.spec, class))
		}
	}
	c.Ev.Probes[class+"_runs_differing_from_reference"] = nDiff
	c.Logf("stage %s: %d plans, %d differ from their reference", class, len(cases), nDiff)
}

// minimizeOrder shrinks the set of permuted sites of a differing plan to a
// 1-minimal set (ddmin over sites), then prefers reverse over shuffle.
func (c *Ctx) minimizeOrder(ref *Ref, bad *Spec, class string) *Finding {
	if !c.mayMinimize() {
		return &Finding{Class: class, Scenario: ref.Sc.Name, Where: "not-minimised", Detail: "(not minimised) plan " + bad.ID, Spec: bad, Spec2: ref.Spec, Oracle: "trace equality with the canonical reference", Expect: "trace-differs-from-spec2"}
	}
	differs := func(sp *Spec) bool {
		r := c.Pool.Run([]*Spec{sp}, nil)[0]
		got := outcomeSig(r.op("t"))
		if cl, _, _ := crashOf(r); cl != "" && r.op("t") == nil {
			got = cl
		}
		return got != outcomeSig(ref.Write)
	}
	sites := bad.Order.Sites
	if sites == nil {
		sites = append([]int(nil), ref.Relevant...)
	}
	pinned := map[int]bool{}
	for _, p := range bad.Order.Pin {
		pinned[p] = true
	}
	var cand []int
	for _, s := range sites {
		if !pinned[s] {
			cand = append(cand, s)
		}
	}
	with := func(ss []int, mode string) *Spec {
		sp := cloneSpec(bad)
		sp.Order.Sites = append([]int{}, ss...)
		if mode != "" {
			sp.Order.Mode = mode
		}
		return sp
	}
	cur := cand
	if !differs(with(cur, "")) {
		// the restriction to relevant sites lost it (should not happen): keep the original
		cur = nil
	} else {
		// single-site shortcut
		found := false
		for _, s := range cur {
			if differs(with([]int{s}, "")) {
				cur = []int{s}
				found = true
				break
			}
		}
		if !found {
			cur = ddminInts(cur, func(ss []int) bool { return differs(with(ss, "")) })
		}
	}
	min := bad
	if cur != nil {
		min = with(cur, "")
		if min.Order.Mode != "reverse" && differs(with(cur, "reverse")) {
			min = with(cur, "reverse")
		}
	}
	var names []string
	for _, s := range min.Order.Sites {
		names = append(names, c.Build.SiteName(s))
	}
	sort.Strings(names)
	where := strings.Join(names, "+")
	if where == "" {
		where = "all-sites"
	}
	d := c.firstTraceDiff(ref.Spec, min, 0, 0, "t", "t")
	return &Finding{Class: class, Scenario: ref.Sc.Name, Where: where,
		Oracle: "trace under a permuted (legal) map iteration order must equal the trace under canonical order",
		Detail: fmt.Sprintf("cfg=%s mode=%s seed=%d: %s", ref.Cfg, min.Order.Mode, min.Order.Seed, d),
		Spec:   min, Spec2: ref.Spec, Expect: "trace-differs-from-spec2"}
}

func ddminInts(items []int, test func([]int) bool) []int {
	n := 2
	for len(items) >= 2 {
		chunk := (len(items) + n - 1) / n
		reduced := false
		for i := 0; i < len(items); i += chunk {
			j := i + chunk
			if j > len(items) {
				j = len(items)
			}
			// complement
			comp := append(append([]int{}, items[:i]...), items[j:]...)
			if len(comp) > 0 && test(comp) {
				items = comp
				if n > 2 {
					n--
				}
				reduced = true
				break
			}
		}
		if !reduced {
			if n >= len(items) {
				break
			}
			n *= 2
			if n > len(items) {
				n = len(items)
			}
		}
	}
	return items
}

// stageKnownMapOrder re-confirms each listed map-order finding with a small
// dedicated batch in which ONLY the listed site(s) are permuted.
func (c *Ctx) stageKnownMapOrder(refs map[refKey]*Ref, keys []refKey) {
	var cases []planCase
	for _, e := range c.Known.ForProp(c.Prop) {
		if e.Kind != "known" || e.Class != "maporder" {
			continue
		}
		var ids []int
		ok := true
		for _, n := range strings.Split(e.Where, "+") {
			s, found := c.Build.ByName[n]
			if !found {
				ok = false
				break
			}
			ids = append(ids, s.ID)
		}
		if !ok {
			continue
		}
		for _, k := range keys {
			if e.Scenario != "" && e.Scenario != k.Scenario {
				continue
			}
			ref := refs[k]
			rel := false
			for _, id := range ids {
				for _, r := range ref.Relevant {
					if r == id {
						rel = true
					}
				}
			}
			if !rel {
				continue
			}
			for j, mode := range []string{"reverse", "shuffle", "shuffle"} {
				sp := cloneSpec(ref.Spec)
				sp.ID = fmt.Sprintf("known/%s/%s/%s%d", k.Scenario, k.Cfg, mode, j)
				sp.Order = OrderPlan{Mode: mode, Seed: uint64(j) + c.Seed, Sites: ids}
				cases = append(cases, planCase{k, sp})
			}
		}
	}
	if len(cases) > 0 {
		c.runOrderCases(refs, cases, "maporder")
	}
}

// ---- 7.3 histories

func (c *Ctx) stageHistories(refs map[refKey]*Ref, keys []refKey) {
	rng := stream(c.Seed, "history")
	n := 240
	if c.Tier == "thorough" {
		n = 4000
	}
	byScenario := map[string][]refKey{}
	var names []string
	for _, k := range keys {
		if len(byScenario[k.Scenario]) == 0 {
			names = append(names, k.Scenario)
		}
		byScenario[k.Scenario] = append(byScenario[k.Scenario], k)
	}
	groups := map[string][]string{}
	for _, nme := range names {
		if g := c.Corpus.ByName[nme].Expect.Group; g != "" {
			groups[g] = append(groups[g], nme)
		}
	}
	var gnames []string
	for g := range groups {
		gnames = append(gnames, g)
	}
	sort.Strings(gnames)

	type hcase struct {
		spec   *Spec
		expect map[string]refKey // write op id -> reference
	}
	var cases []hcase
	// systematic part: inside every (small) group, each ordered pair of documents - what the first
	// leaves in the objects they share must not show in the second
	var preset [][]string
	for _, g := range gnames {
		if len(groups[g]) > 7 {
			continue
		}
		for _, a := range groups[g] {
			for _, b := range groups[g] {
				preset = append(preset, []string{a, b})
			}
		}
	}
	c.Ev.Probes["histories_of_every_ordered_pair_in_a_group"] = len(preset)
	for i := 0; i < len(preset)+n; i++ {
		h := hcase{spec: &Spec{ID: fmt.Sprintf("hist/%d", i), Order: OrderPlan{Mode: "canon"}}, expect: map[string]refKey{}}
		var ops []Op
		// choose documents: half of the histories draw from one shared group
		var docs []string
		if i < len(preset) {
			docs = preset[i]
		} else if len(gnames) > 0 && rng.Intn(2) == 0 {
			g := groups[gnames[rng.Intn(len(gnames))]]
			k := 2 + rng.Intn(3)
			for j := 0; j < k; j++ {
				docs = append(docs, g[rng.Intn(len(g))])
			}
		} else {
			k := 2 + rng.Intn(3)
			for j := 0; j < k; j++ {
				docs = append(docs, names[rng.Intn(len(names))])
			}
		}
		sharedCSS := map[string]string{} // group -> css id prefix
		sharedFC := ""
		for j, nme := range docs {
			sc := c.Corpus.ByName[nme]
			ks := byScenario[nme]
			k := ks[rng.Intn(len(ks))]
			cfg := refs[k].Cfg
			p := fmt.Sprintf("d%d", j)
			dops := docOps(sc, cfg, p, false)
			// share parsed user stylesheets inside a group (ordinary server usage)
			if g := sc.Expect.Group; g != "" && len(sc.UserCSS) > 0 {
				if pre, ok := sharedCSS[g]; ok {
					var kept []Op
					for _, o := range dops {
						if o.Op == "css" {
							continue
						}
						if o.Op == "render" {
							for x := range o.CSS {
								o.CSS[x] = fmt.Sprintf("%su%d", pre, x)
							}
						}
						kept = append(kept, o)
					}
					dops = kept
				} else {
					sharedCSS[g] = p
				}
			}
			// sometimes (always inside the "rew" group) share the font configuration between
			// documents without @font-face
			if cfg.Engine == "pango" && sc.Family != "res" && sc.Family != "collide" && sc.Name != "feat-05" && (rng.Intn(3) == 0 || sc.Expect.Group == "rew") {
				if sharedFC == "" {
					sharedFC = p + "f"
				} else {
					var kept []Op
					for _, o := range dops {
						if o.Op == "fontconfig" {
							continue
						}
						if o.Op == "render" {
							o.FC = sharedFC
						}
						kept = append(kept, o)
					}
					dops = kept
				}
			}
			ops = append(ops, dops...)
			h.expect[p+"t"] = k
			// extras: write the same document again; render the same html again
			extra := rng.Intn(4)
			if sc.Expect.LegacyAttrs {
				extra = 1 // documents with presentational attributes: always re-render (with the hints toggle below)
			}
			switch extra {
			case 0:
				ops = append(ops, Op{Op: "write", ID: p + "t2", Doc: p + "d", Zoom: cfg.Zoom})
				h.expect[p+"t2"] = k
			case 1:
				var rop Op
				for _, o := range dops {
					if o.Op == "render" {
						rop = o
					}
				}
				rop.ID = p + "d2"
				if (rng.Intn(3) == 0 || sc.Expect.LegacyAttrs) && !rop.Hints {
					// the same parsed *tree.HTML first rendered WITH presentational hints (result
					// discarded), then without: nothing of the first render may stick to it
					hop := rop
					hop.ID = p + "dh"
					hop.Hints = true
					ops = append(ops, hop)
				}
				if rng.Intn(2) == 0 {
					// the same parsed *tree.HTML rendered again with a FRESH font
					// configuration (everything a render registers must be re-registered)
					ops = append(ops, Op{Op: "fontconfig", ID: p + "f2", Engine: cfg.Engine})
					rop.FC = p + "f2"
				}
				ops = append(ops, rop, Op{Op: "write", ID: p + "t3", Doc: p + "d2", Zoom: cfg.Zoom})
				h.expect[p+"t3"] = k
			}
		}
		h.spec.Tasks = [][]Op{ops}
		cases = append(cases, h)
	}
	specs := make([]*Spec, len(cases))
	for i := range cases {
		specs[i] = cases[i].spec
	}
	results := c.runBatch(specs)
	nBad := 0
	for i, r := range results {
		hc := cases[i]
		c.Ev.Distinct(historySig(hc.spec))
		if i < 2 {
			c.Ev.Sample(map[string]interface{}{"kind": "history", "ops": opSummary(hc.spec.Tasks[0])})
		}
		var ids []string
		for id := range hc.expect {
			ids = append(ids, id)
		}
		sort.Strings(ids)
		for _, id := range ids {
			ref := refs[hc.expect[id]]
			got := r.op(id)
			if outcomeSig(got) == outcomeSig(ref.Write) {
				continue
			}
			nBad++
			if nBad > 12 {
				break
			}
			c.Findings = append(c.Findings, c.minimizeHistory(hc.spec, id, ref))
			break
		}
	}
	c.Ev.Probes["histories"] = len(cases)
	c.Logf("stage histories: %d histories, %d with a write differing from its solo reference", len(cases), nBad)
}

func opSummary(ops []Op) []string {
	var out []string
	for _, o := range ops {
		s := o.Op + ":" + o.ID
		switch o.Op {
		case "html", "css":
			s += "(" + o.Scenario + ")"
		case "render":
			s += fmt.Sprintf("(%s,css=%v,fc=%s)", o.HTML, o.CSS, o.FC)
		case "write":
			s += "(" + o.Doc + ")"
		}
		out = append(out, s)
	}
	return out
}

func historySig(s *Spec) string { return strings.Join(opSummary(s.Tasks[0]), ";") }

// closure keeps op `target` and everything it depends on, plus the ops in keep.
func dependencyClosed(ops []Op, keep map[int]bool) []Op {
	need := map[string]bool{}
	for i := len(ops) - 1; i >= 0; i-- {
		o := ops[i]
		if keep[i] || need[o.ID] {
			keep[i] = true
			for _, d := range append([]string{o.HTML, o.FC, o.Doc}, o.CSS...) {
				if d != "" {
					need[d] = true
				}
			}
		}
	}
	var out []Op
	for i, o := range ops {
		if keep[i] {
			out = append(out, o)
		}
	}
	return out
}

func (c *Ctx) minimizeHistory(bad *Spec, writeID string, ref *Ref) *Finding {
	if !c.mayMinimize() {
		return &Finding{Class: "history", Scenario: ref.Sc.Name, Where: "not-minimised", Detail: "(not minimised) history " + historySig(bad), Spec: bad, Spec2: ref.Spec, Oracle: "trace equality with the solo reference", Expect: "op " + writeID + " trace-differs-from-spec2"}
	}
	ops := bad.Tasks[0]
	target := -1
	for i, o := range ops {
		if o.ID == writeID {
			target = i
		}
	}
	differs := func(cand []Op) bool {
		sp := cloneSpec(bad)
		sp.Tasks = [][]Op{cand}
		r := c.Pool.Run([]*Spec{sp}, nil)[0]
		return outcomeSig(r.op(writeID)) != outcomeSig(ref.Write)
	}
	// candidates: indices other than the target's dependency closure
	base := map[int]bool{target: true}
	minimal := dependencyClosed(ops, copyBoolMap(base))
	if differs(minimal) {
		// differs even alone: not a history effect (reference mismatch) — report as such
		sp := cloneSpec(bad)
		sp.Tasks = [][]Op{minimal}
		return &Finding{Class: "history", Scenario: ref.Sc.Name, Where: "solo-differs-from-reference", Oracle: "write trace must equal the solo reference",
			Detail: "the write differs from its reference even without any earlier operation", Spec: sp, Spec2: ref.Spec, Expect: "trace-differs-from-spec2"}
	}
	var extra []int
	for i := range ops {
		if i < target {
			extra = append(extra, i)
		}
	}
	test := func(sub []int) bool {
		k := copyBoolMap(base)
		for _, i := range sub {
			k[i] = true
		}
		return differs(dependencyClosed(ops, k))
	}
	if test(extra) {
		extra = ddminInts(extra, test)
		if len(extra) == 1 && !test(extra) {
			// keep as is
		}
	}
	k := copyBoolMap(base)
	for _, i := range extra {
		k[i] = true
	}
	minOps := dependencyClosed(ops, k)
	sp := cloneSpec(bad)
	sp.Tasks = [][]Op{minOps}
	d := c.firstTraceDiff(ref.Spec, sp, 0, 0, "t", writeID)
	// where: the kinds of the earlier ops that matter
	var kinds []string
	seen := map[string]bool{}
	for _, i := range extra {
		kk := ops[i].Op
		if !seen[kk] {
			seen[kk] = true
			kinds = append(kinds, kk)
		}
	}
	sort.Strings(kinds)
	return &Finding{Class: "history", Scenario: ref.Sc.Name, Where: "after:" + strings.Join(kinds, "+") + "/" + callKind(d),
		Oracle: "the trace of a write is a function of (document, site, stylesheets text, hints, engine, zoom): it must equal the solo reference whatever ran before in the process",
		Detail: fmt.Sprintf("history %v: %s", opSummary(minOps), d), Spec: sp, Spec2: ref.Spec, Expect: "op " + writeID + " trace-differs-from-spec2"}
}

func copyBoolMap(m map[int]bool) map[int]bool {
	out := map[int]bool{}
	for k, v := range m {
		out[k] = v
	}
	return out
}

// ---- recovery: resources fetched at Write time (attachments) fail transiently during
// the first Write; once the fault has passed, a second Write of the same Document must be
// the fault-free Write (bounded liveness: served again as soon as faults stop)
func (c *Ctx) stageRecovery(refs map[refKey]*Ref, keys []refKey) {
	var specs []*Spec
	var ks []refKey
	for _, k := range keys {
		ref := refs[k]
		var att []string
		for _, fn := range ref.Sc.FileNames() {
			if ref.Sc.Files[fn].Kind == "attachment" {
				att = append(att, fn)
			}
		}
		if len(att) == 0 || ref.Cfg.Engine != "pango" {
			continue
		}
		for _, nfail := range []int{1, 2} {
			sp := cloneSpec(ref.Spec)
			sp.ID = fmt.Sprintf("recovery/%s/%s/%d", k.Scenario, k.Cfg, nfail)
			for _, fn := range att {
				sp.Faults = append(sp.Faults, Fault{At: "url:" + fn, Kind: "transient", N: nfail})
			}
			// enough writes for every transient failure to be consumed, then one more
			n := 1 + nfail
			for w := 0; w < n; w++ {
				sp.Tasks[0] = append(sp.Tasks[0], Op{Op: "write", ID: fmt.Sprintf("tr%d", w), Doc: "d", Zoom: ref.Cfg.Zoom})
			}
			specs = append(specs, sp)
			ks = append(ks, k)
		}
	}
	if len(specs) == 0 {
		return
	}
	results := c.runBatch(specs)
	nBad := 0
	for i, r := range results {
		c.Ev.Distinct(specs[i].ID)
		ref := refs[ks[i]]
		last := specs[i].Tasks[0][len(specs[i].Tasks[0])-1].ID
		if outcomeSig(r.op(last)) == outcomeSig(ref.Write) {
			continue
		}
		nBad++
		d := c.firstTraceDiff(ref.Spec, specs[i], 0, 0, "t", last)
		c.Findings = append(c.Findings, &Finding{Class: "recovery", Scenario: ks[i].Scenario, Where: callKind(d),
			Oracle: "after the transient fetch failures have passed, a further Write of the same Document equals the fault-free Write",
			Detail: fmt.Sprintf("faults=%v: %s", specs[i].Faults, d), Spec: specs[i], Spec2: ref.Spec, Expect: "op " + last + " trace-differs-from-spec2"})
	}
	c.Ev.Probes["recovery_runs"] = len(specs)
	c.Logf("stage recovery: %d runs, %d not recovered", len(specs), nBad)
}

// ---- 7.4 interleavings of concurrent renders (token scheduler)

func (c *Ctx) stageInterleave(refs map[refKey]*Ref, keys []refKey) {
	rng := stream(c.Seed, "sched")
	n := 400
	if c.Tier == "thorough" {
		n = 8000
	}
	// prefer small documents: interleavings are about shared state, not size
	var small []refKey
	for _, k := range keys {
		if refs[k].Res.Steps < 1500000 {
			small = append(small, k)
		}
	}
	if len(small) < 2 {
		small = keys
	}
	type icase struct {
		spec *Spec
		ks   []refKey
	}
	var cases []icase
	for i := 0; i < n; i++ {
		nt := 2 + rng.Intn(3)
		ic := icase{spec: &Spec{ID: fmt.Sprintf("il/%d", i), Order: OrderPlan{Mode: "canon"}}}
		var total uint64
		sharedGroup := ""
		sameDoc := rng.Intn(4) == 0 // the SAME document (same URLs) rendered by several tasks
		var first refKey
		for t := 0; t < nt; t++ {
			k := small[rng.Intn(len(small))]
			if sameDoc && t > 0 {
				k = first
			}
			if t == 0 {
				first = k
			}
			// variant shared-css: tasks of one group share the parsed user stylesheets
			ops := docOps(refs[k].Sc, refs[k].Cfg, "", false)
			sc := refs[k].Sc
			if g := sc.Expect.Group; g != "" && len(sc.UserCSS) > 0 && rng.Intn(2) == 0 && (sharedGroup == "" || sharedGroup == g) {
				if sharedGroup == "" {
					sharedGroup = g
					for x, f := range sc.UserCSS {
						ic.spec.Shared = append(ic.spec.Shared, Op{Op: "css", ID: fmt.Sprintf("S%d", x), Scenario: sc.Name, File: f})
					}
				}
				var kept []Op
				for _, o := range ops {
					if o.Op == "css" {
						continue
					}
					if o.Op == "render" {
						for x := range o.CSS {
							o.CSS[x] = fmt.Sprintf("S%d", x)
						}
					}
					kept = append(kept, o)
				}
				ops = kept
			}
			ic.spec.Tasks = append(ic.spec.Tasks, ops)
			ic.ks = append(ic.ks, k)
			total += refs[k].Res.Steps
		}
		d := []int{1, 2, 3, 5, 8}[rng.Intn(5)]
		for j := 0; j < d; j++ {
			ic.spec.Preempt = append(ic.spec.Preempt, Preempt{Step: 1 + rng.Next()%total, To: rng.Intn(nt)})
		}
		sort.Slice(ic.spec.Preempt, func(a, b int) bool { return ic.spec.Preempt[a].Step < ic.spec.Preempt[b].Step })
		cases = append(cases, ic)
	}
	// systematic part: switch right after every package-level write of a task (the only
	// places where renders can meet through process-wide state), to another task that
	// also writes package-level state, and optionally back at that task's first write
	var writers []refKey
	for _, k := range keys {
		if refs[k].Res.GWTotal > 0 {
			writers = append(writers, k)
		}
	}
	c.Ev.Probes["documents_writing_package_level_state"] = len(writers)
	maxPairs := 40
	if c.Tier == "thorough" {
		maxPairs = 600
	}
	nSys := 0
	for pi := 0; pi < maxPairs+len(writers) && len(writers) > 0; pi++ {
		a := writers[rng.Intn(len(writers))]
		b := writers[rng.Intn(len(writers))]
		if pi < len(writers) {
			// first, every writer against itself: two renders that write the same process-wide
			// state at the same places
			a, b = writers[pi], writers[pi]
		}
		nw := refs[a].Res.GWTotal
		if nw > 6 {
			nw = 6
		}
		for k := 0; k < nw; k++ {
			for variant := 0; variant < 2; variant++ {
				ic := icase{spec: &Spec{ID: fmt.Sprintf("ilw/%d/%d/%d", pi, k, variant), Order: OrderPlan{Mode: "canon"}, Fresh: true}, ks: []refKey{a, b}}
				ic.spec.Tasks = [][]Op{docOps(refs[a].Sc, refs[a].Cfg, "", false), docOps(refs[b].Sc, refs[b].Cfg, "", false)}
				ic.spec.PreemptW = []PreemptW{{Task: 0, K: k, To: 1}}
				if variant == 1 {
					ic.spec.PreemptW = append(ic.spec.PreemptW, PreemptW{Task: 1, K: 0, To: 0})
				}
				cases = append(cases, ic)
				nSys++
			}
		}
	}
	c.Ev.Probes["interleavings_at_package_level_writes"] = nSys
	// sweep: every document against itself, once (same URLs, same names, same everything: the
	// pair most likely to meet in a cache keyed too coarsely; and the shared-write rule does not
	// depend on where the switch falls, so one run per document decides it)
	nSelf := 0
	seenSelf := map[string]bool{}
	for _, k := range keys {
		if seenSelf[k.Scenario] || refs[k].Cfg.Engine != "pango" {
			continue
		}
		seenSelf[k.Scenario] = true
		ic := icase{spec: &Spec{ID: "ilself/" + k.Scenario, Order: OrderPlan{Mode: "canon"}}, ks: []refKey{k, k}}
		ic.spec.Tasks = [][]Op{docOps(refs[k].Sc, refs[k].Cfg, "", false), docOps(refs[k].Sc, refs[k].Cfg, "", false)}
		ic.spec.Preempt = []Preempt{{Step: 1 + refs[k].Res.Steps/2, To: 1}}
		cases = append(cases, ic)
		nSelf++
	}
	c.Ev.Probes["interleavings_of_a_document_with_itself"] = nSelf
	specs := make([]*Spec, len(cases))
	for i := range cases {
		specs[i] = cases[i].spec
	}
	results := c.runBatch(specs)
	nBad := 0
	nShared, nSharedFindings := 0, 0
	for i, r := range results {
		ic := cases[i]
		if len(r.Switches) > 0 {
			c.Ev.Distinct(fmt.Sprintf("il|%v|%v", ic.ks, r.Switches))
		}
		if i < 2 {
			c.Ev.Sample(map[string]interface{}{"kind": "interleaving", "tasks": ic.ks, "preempt": ic.spec.Preempt, "switches_performed": r.Switches})
		}
		if r.LockOps > 0 {
			c.Ev.Probes["interleavings_with_lock_ops"]++
		}
		for _, mc := range r.MapConflicts {
			where := c.conflictWhere(mc)
			dup := false
			for _, f := range c.Findings {
				if f.Class == "shared-write" && f.Where == where {
					dup = true
				}
			}
			nShared++
			if !dup && nSharedFindings < 6 {
				nSharedFindings++
				c.Findings = append(c.Findings, &Finding{Class: "shared-write", Scenario: refs[ic.ks[mc.TaskB%len(ic.ks)]].Sc.Name, Where: where,
					Oracle:  "independent renders share no mutable map: no map is written by two tasks of one run (writes under a lock of the library excepted)",
					Detail:  c.conflictDetail(mc), Spec: ic.spec, Expect: "map-conflict " + where})
			}
		}
		for t, k := range ic.ks {
			got := r.taskOp(t, "t")
			want := refs[k].Write
			sig := outcomeSig(got)
			if cl, _, _ := crashOf(r); cl != "" && got == nil {
				sig = cl
			}
			if sig == outcomeSig(want) {
				continue
			}
			nBad++
			if nBad <= 8 {
				c.Findings = append(c.Findings, c.minimizeInterleave(ic.spec, t, refs[k], r))
			}
			break
		}
	}
	c.Ev.Probes["interleavings"] = len(cases)
	c.Ev.Probes["maps_written_by_two_tasks"] = nShared
	c.Logf("stage interleave: %d interleavings, %d with a task differing from its solo reference, %d maps written by two tasks", len(cases), nBad, nShared)
}

func (c *Ctx) minimizeInterleave(bad *Spec, task int, ref *Ref, r0 *Result) *Finding {
	if !c.mayMinimize() {
		return &Finding{Class: "interleave", Scenario: ref.Sc.Name, Where: "not-minimised", Detail: "(not minimised)", Spec: bad, Spec2: ref.Spec, Oracle: "trace equality with the solo reference", Expect: fmt.Sprintf("task %d trace-differs-from-spec2", task)}
	}
	differs := func(sp *Spec) bool {
		r := c.Pool.Run([]*Spec{sp}, nil)[0]
		got := r.taskOp(task, "t")
		sig := outcomeSig(got)
		if cl, _, _ := crashOf(r); cl != "" && got == nil {
			sig = cl
		}
		return sig != outcomeSig(ref.Write)
	}
	cur := cloneSpec(bad)
	// drop preemption points one by one
	for i := 0; i < len(cur.Preempt); {
		cand := cloneSpec(cur)
		cand.Preempt = append(append([]Preempt{}, cur.Preempt[:i]...), cur.Preempt[i+1:]...)
		if differs(cand) {
			cur = cand
		} else {
			i++
		}
	}
	for i := 0; i < len(cur.PreemptW); {
		cand := cloneSpec(cur)
		cand.PreemptW = append(append([]PreemptW{}, cur.PreemptW[:i]...), cur.PreemptW[i+1:]...)
		if differs(cand) {
			cur = cand
		} else {
			i++
		}
	}
	// drop other tasks (keep indices stable by emptying them)
	for t := range cur.Tasks {
		if t == task || len(cur.Tasks[t]) == 0 {
			continue
		}
		cand := cloneSpec(cur)
		cand.Tasks[t] = []Op{}
		if differs(cand) {
			cur = cand
		}
	}
	class := "interleave"
	where := fmt.Sprintf("%d-preemptions", len(cur.Preempt)+len(cur.PreemptW))
	detail := ""
	if cl, wh, de := crashOf(r0); cl != "" {
		where = cl + "@" + wh
		detail = de
	} else {
		detail = c.firstTraceDiffTask(ref.Spec, cur, task)
		where += "/" + callKind(detail)
	}
	return &Finding{Class: class, Scenario: ref.Sc.Name, Where: where,
		Oracle: "each of N concurrently rendered documents (own font configuration) must produce its solo trace",
		Detail: fmt.Sprintf("task %d of %d, preempt=%v preempt_at_package_writes=%v: %s", task, len(cur.Tasks), cur.Preempt, cur.PreemptW, detail), Spec: cur, Spec2: ref.Spec, Expect: fmt.Sprintf("task %d trace-differs-from-spec2", task)}
}

func (c *Ctx) firstTraceDiffTask(a, b *Spec, taskB int) string {
	return c.firstTraceDiff(a, b, 0, taskB, "t", "t")
}

// ---- 7.6 free-running race probe (auxiliary; declared as monitoring)

func (c *Ctx) stageRace(refs map[refKey]*Ref, keys []refKey) {
	if c.Build.RaceWorker == "" {
		return
	}
	rng := stream(c.Seed, "race")
	rounds := 12
	if c.Tier == "thorough" {
		rounds = 300
	}
	var small []refKey
	for _, k := range keys {
		if refs[k].Res.Steps < 1200000 {
			small = append(small, k)
		}
	}
	if len(small) < 2 {
		small = keys
	}
	// documents whose solo run touches process-wide locked state (hyphenation cache):
	// at least two of them start together in most rounds, so that the shared state is
	// actually contended (a fault while idle tests nothing)
	var lockers []refKey
	for _, k := range small {
		if refs[k].Res.LockOps > 0 || refs[k].Sc.Family == "hyph" {
			lockers = append(lockers, k)
		}
	}
	c.Ev.Probes["race_documents_touching_locked_state"] = len(lockers)
	var sharers []refKey // documents with a user stylesheet shared inside a group
	for _, k := range small {
		if refs[k].Sc.Expect.Group != "" && len(refs[k].Sc.UserCSS) > 0 {
			sharers = append(sharers, k)
		}
	}
	pool := NewPool(c.Build.RaceWorker, c.Pool.args, []string{"GORACE=halt_on_error=1 exitcode=66"}, 4, 300*time.Second)
	var specs []*Spec
	for i := 0; i < rounds; i++ {
		sp := &Spec{ID: fmt.Sprintf("race/%d", i), Order: OrderPlan{Mode: "canon"}, Free: true, Fresh: true}
		nt := 4 + rng.Intn(5)
		shared := rng.Intn(2) == 0
		sharedGroup := ""
		sameDoc := !shared && i%3 == 1 // the same document rendered by all goroutines of the round
		var firstK refKey
		for t := 0; t < nt; t++ {
			k := small[rng.Intn(len(small))]
			if sameDoc {
				if t == 0 {
					firstK = k
				}
				k = firstK
			}
			if len(lockers) > 0 && t < 3 && i%3 == 0 && !shared {
				k = lockers[rng.Intn(len(lockers))]
			}
			ops := docOps(refs[k].Sc, refs[k].Cfg, "", false)
			sc := refs[k].Sc
			if shared && t < 4 && len(sharers) > 0 {
				// ordinary server usage: ONE parsed user stylesheet used by several
				// concurrent renders of documents of its group
				k = sharers[rng.Intn(len(sharers))]
				sc = refs[k].Sc
				ops = docOps(sc, refs[k].Cfg, "", false)
				if len(sp.Shared) == 0 {
					sharedGroup = sc.Expect.Group
					for x, f := range sc.UserCSS {
						sp.Shared = append(sp.Shared, Op{Op: "css", ID: fmt.Sprintf("S%d", x), Scenario: sc.Name, File: f})
					}
				}
				if sc.Expect.Group == sharedGroup {
					var kept []Op
					for _, o := range ops {
						if o.Op == "css" {
							continue
						}
						if o.Op == "render" {
							for x := range o.CSS {
								o.CSS[x] = fmt.Sprintf("S%d", x)
							}
						}
						kept = append(kept, o)
					}
					ops = kept
				}
			}
			sp.Tasks = append(sp.Tasks, ops)
		}
		specs = append(specs, sp)
	}
	// sweep: every document rendered concurrently with itself (3 goroutines, own font
	// configurations): whatever process-wide or per-URL state a render touches is touched by
	// all three at about the same time
	sweep := keys
	if c.Tier == "quick" {
		// quick: default configuration only
		sweep = nil
		for _, k := range keys {
			if k.Cfg == defaultCfg().String() {
				sweep = append(sweep, k)
			}
		}
	}
	for _, k := range sweep {
		if refs[k].Res.Steps > 4000000 {
			continue
		}
		sp := &Spec{ID: "race/sweep/" + k.Scenario + "/" + k.Cfg, Order: OrderPlan{Mode: "canon"}, Free: true, Fresh: true}
		for t := 0; t < 3; t++ {
			sp.Tasks = append(sp.Tasks, docOps(refs[k].Sc, refs[k].Cfg, "", false))
		}
		specs = append(specs, sp)
	}
	pool.n = 8
	results := pool.Run(specs, nil)
	c.Pool.Runs += pool.Runs
	nRace := 0
	for i, r := range results {
		c.Ev.Evals++
		c.Ev.Distinct("race|" + specs[i].ID)
		if r.Fatal == "" {
			continue
		}
		if r.FatalClass != "data-race" && r.FatalClass != "concurrent-map" {
			// crash of another kind under real concurrency: confirm once
			r2 := pool.RunFresh(specs[i])
			if r2.Fatal == "" {
				c.Infra("race round %s died (%s) and did not reproduce", specs[i].ID, r.FatalClass)
				continue
			}
			r = r2
		}
		frame := raceFrame(r.Stderr)
		if frame == "" {
			// report entirely inside dependencies / harness: recorded, not raised
			c.Ev.Probes["race_reports_outside_repo"]++
			continue
		}
		nRace++
		reproduced := pool.RunFresh(specs[i]).Fatal != ""
		c.Findings = append(c.Findings, &Finding{Class: "race", Scenario: "concurrent-renders", Where: frame,
			Oracle: "Go race detector on the un-rewritten build, free-running goroutines (monitoring, not simulation)",
			Detail: fmt.Sprintf("%s; reproduced on re-run: %v; report: %s", r.FatalClass, reproduced, clip(r.Stderr, 1500)), Spec: specs[i], Expect: "race-report"})
	}
	c.Ev.Probes["race_rounds"] = len(specs)
	c.Ev.Extra["race_probe"] = map[string]interface{}{"rounds": len(specs), "reports_in_repo": nRace, "note": "un-rewritten tree built with -race; 4-8 free-running goroutines per round on the real Go scheduler: observation of executions the simulator does not control"}
	c.Logf("stage race: %d rounds, %d reports with a webrender frame", len(specs), nRace)
}

// raceFrame returns the first webrender frame (file#func) of a race report.
func raceFrame(stderr string) string {
	return fatalFrame(stderr)
}

// conflictWhere names a map written by two tasks by the two write sites (stable across builds).
func (c *Ctx) conflictWhere(mc MapConflict) string {
	name := func(id int) string {
		if st, ok := c.Build.Sites[id]; ok {
			return st.File + "#" + st.Func + "(" + st.Name + ")"
		}
		return fmt.Sprintf("site%d", id)
	}
	return name(mc.SiteA) + "|" + name(mc.SiteB)
}

func (c *Ctx) conflictDetail(mc MapConflict) string {
	line := func(id int) string {
		if st, ok := c.Build.Sites[id]; ok {
			return fmt.Sprintf("%s:%d (%s, map %s)", st.File, st.Line, st.Func, st.Name)
		}
		return fmt.Sprintf("site %d", id)
	}
	return fmt.Sprintf("the same map is written by task %d at %s and by task %d at %s, with no lock of the library held", mc.TaskA, line(mc.SiteA), mc.TaskB, line(mc.SiteB))
}
