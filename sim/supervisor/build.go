package main

import (
	"bufio"
	"crypto/sha256"
	"encoding/hex"
	"fmt"
	"io"
	"io/fs"
	"os"
	"os/exec"
	"path/filepath"
	"sort"
	"strconv"
	"strings"
	"syscall"
	"time"
)

// Build is one instrumented build of /repo's current working tree.
type Build struct {
	Key        string
	Dir        string
	SimWorker  string
	RaceWorker string
	NSites     int
	Sites      map[int]*Site    // all sites
	ByName     map[string]*Site // range sites by stable name
	Ranges     []*Site
	Uncontrolled []string
}

type Site struct {
	ID   int
	Kind string // func | funclit | range
	File string
	Func string
	Line int
	Name string // range sites: file#func#n
}

func repoDir() string {
	if d := os.Getenv("VERIF_REPO"); d != "" {
		return d
	}
	return "/repo"
}

func hashTree(h io.Writer, root string, skip func(rel string, d fs.DirEntry) bool) error {
	var files []string
	err := filepath.WalkDir(root, func(path string, d fs.DirEntry, err error) error {
		if err != nil {
			return err
		}
		rel, _ := filepath.Rel(root, path)
		if skip(rel, d) {
			if d.IsDir() {
				return filepath.SkipDir
			}
			return nil
		}
		if d.Type().IsRegular() {
			files = append(files, path)
		}
		return nil
	})
	if err != nil {
		return err
	}
	sort.Strings(files)
	for _, f := range files {
		rel, _ := filepath.Rel(root, f)
		fmt.Fprintf(h, "%s\x00", rel)
		fh, err := os.Open(f)
		if err != nil {
			return err
		}
		n, _ := io.Copy(h, fh)
		fh.Close()
		fmt.Fprintf(h, "\x00%d\x00", n)
	}
	return nil
}

func buildKey() (string, error) {
	h := sha256.New()
	if err := hashTree(h, repoDir(), func(rel string, d fs.DirEntry) bool { return rel == ".git" }); err != nil {
		return "", err
	}
	for _, sub := range []string{"sim/simrt", "sim/worker", "tools/rewriter"} {
		if err := hashTree(h, filepath.Join(verifDir, sub), func(rel string, d fs.DirEntry) bool {
			return !d.IsDir() && !strings.HasSuffix(rel, ".go") && !strings.HasSuffix(rel, ".mod") && !strings.HasSuffix(rel, ".sum")
		}); err != nil {
			return "", err
		}
	}
	b, err := os.ReadFile(filepath.Join(verifDir, "build.sh"))
	if err != nil {
		return "", err
	}
	h.Write(b)
	return hex.EncodeToString(h.Sum(nil)), nil
}

// ensureBuild builds (or reuses) the workers for the current /repo working tree.
// Builds are cached under <verif>/.build/<key>; old builds are pruned (see below).
func ensureBuild(needRace bool, c *Ctx) (*Build, error) {
	key, err := buildKey()
	if err != nil {
		return nil, err
	}
	root := filepath.Join(verifDir, ".build")
	if err := os.MkdirAll(root, 0o755); err != nil {
		return nil, err
	}
	// serialise concurrent checks of the same tree
	lock, err := os.OpenFile(filepath.Join(root, "lock"), os.O_CREATE|os.O_RDWR, 0o644)
	if err != nil {
		return nil, err
	}
	defer lock.Close()
	if err := syscall.Flock(int(lock.Fd()), syscall.LOCK_EX); err != nil {
		return nil, err
	}
	defer syscall.Flock(int(lock.Fd()), syscall.LOCK_UN)

	dir := filepath.Join(root, key[:32])
	b := &Build{Key: key, Dir: dir, SimWorker: filepath.Join(dir, "simworker"), RaceWorker: filepath.Join(dir, "raceworker")}
	var targets []string
	if _, err := os.Stat(b.SimWorker); err != nil {
		targets = append(targets, "sim")
	}
	if needRace {
		if _, err := os.Stat(b.RaceWorker); err != nil {
			targets = append(targets, "race")
		}
	}
	if len(targets) > 0 {
		// drop old builds: keep the 6 most recent and anything younger than 3 hours
		// (several checks, possibly of different trees, may run concurrently)
		type old struct {
			name string
			mod  time.Time
		}
		var olds []old
		ents, _ := os.ReadDir(root)
		for _, e := range ents {
			if e.IsDir() && e.Name() != key[:32] {
				if fi, err := e.Info(); err == nil {
					olds = append(olds, old{e.Name(), fi.ModTime()})
				}
			}
		}
		sort.Slice(olds, func(i, j int) bool { return olds[i].mod.After(olds[j].mod) })
		for i, o := range olds {
			if i >= 5 && time.Since(o.mod) > 3*time.Hour {
				os.RemoveAll(filepath.Join(root, o.name))
			}
		}
		cmd := exec.Command(filepath.Join(verifDir, "build.sh"), append([]string{dir}, targets...)...)
		cmd.Stdout = os.Stderr
		cmd.Stderr = os.Stderr
		if err := cmd.Run(); err != nil {
			return nil, fmt.Errorf("build.sh %v: %v", targets, err)
		}
	}
	if err := b.loadSites(); err != nil {
		return nil, err
	}
	now := time.Now()
	os.Chtimes(dir, now, now)
	return b, nil
}

func (b *Build) loadSites() error {
	f, err := os.Open(filepath.Join(b.Dir, "sites.tsv"))
	if err != nil {
		return err
	}
	defer f.Close()
	b.Sites = map[int]*Site{}
	b.ByName = map[string]*Site{}
	sc := bufio.NewScanner(f)
	sc.Buffer(make([]byte, 1<<20), 1<<20)
	for sc.Scan() {
		parts := strings.Split(sc.Text(), "\t")
		if len(parts) < 5 {
			continue
		}
		id, _ := strconv.Atoi(parts[0])
		line, _ := strconv.Atoi(parts[4])
		s := &Site{ID: id, Kind: parts[1], File: parts[2], Func: parts[3], Line: line}
		if (s.Kind == "gwrite" || s.Kind == "mwrite") && len(parts) >= 6 {
			s.Name = parts[5]
		}
		if s.Kind == "range" && len(parts) >= 6 {
			s.Name = parts[5]
			b.ByName[s.Name] = s
			b.Ranges = append(b.Ranges, s)
		}
		b.Sites[id] = s
		if id > b.NSites {
			b.NSites = id
		}
	}
	if u, err := os.ReadFile(filepath.Join(b.Dir, "uncontrolled.txt")); err == nil {
		for _, l := range strings.Split(string(u), "\n") {
			if strings.TrimSpace(l) != "" {
				b.Uncontrolled = append(b.Uncontrolled, l)
			}
		}
	}
	return sc.Err()
}

func (b *Build) SiteName(id int) string {
	if s, ok := b.Sites[id]; ok {
		if s.Name != "" {
			return s.Name
		}
		return s.File + "#" + s.Func
	}
	return fmt.Sprintf("site%d", id)
}

// nameSites fills the *Names fields of a spec's order plan from ids.
func (c *Ctx) nameSites(s *Spec) {
	if s == nil {
		return
	}
	s.Order.SiteNames = nil
	for _, id := range s.Order.Sites {
		s.Order.SiteNames = append(s.Order.SiteNames, c.Build.SiteName(id))
	}
	s.Order.PinNames = nil
	for _, id := range s.Order.Pin {
		s.Order.PinNames = append(s.Order.PinNames, c.Build.SiteName(id))
	}
	if len(s.Order.Per) > 0 {
		s.Order.PerNames = map[string]string{}
		for id, m := range s.Order.Per {
			s.Order.PerNames[c.Build.SiteName(id)] = m
		}
	}
}

// resolveSites recomputes ids from names (replay on a possibly different build).
func (c *Ctx) resolveSites(s *Spec) error {
	if s == nil {
		return nil
	}
	get := func(n string) (int, error) {
		if st, ok := c.Build.ByName[n]; ok {
			return st.ID, nil
		}
		return 0, fmt.Errorf("range site %q does not exist in this build", n)
	}
	if s.Order.SiteNames != nil {
		s.Order.Sites = []int{}
		for _, n := range s.Order.SiteNames {
			id, err := get(n)
			if err != nil {
				return err
			}
			s.Order.Sites = append(s.Order.Sites, id)
		}
	}
	if s.Order.PinNames != nil {
		s.Order.Pin = nil
		for _, n := range s.Order.PinNames {
			id, err := get(n)
			if err != nil {
				return err
			}
			s.Order.Pin = append(s.Order.Pin, id)
		}
	}
	if s.Order.PerNames != nil {
		s.Order.Per = map[int]string{}
		for n, m := range s.Order.PerNames {
			id, err := get(n)
			if err != nil {
				return err
			}
			s.Order.Per[id] = m
		}
	}
	return nil
}
