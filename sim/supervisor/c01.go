package main

// C01 — rendering terminates without crashing, under fault sequences at every I/O
// seam, resource-graph topologies (cycles), map orders, restart patterns and
// interleavings (DESIGN.md §4).

import (
	"fmt"
	"sort"
	"strings"
)

type faultCase struct {
	sc     *Scenario
	cfg    Cfg
	spec   *Spec
	faulty map[string]bool // site files hit by a fault
	label  string
}

var mimeFaults = []string{"", "text/plain", "image/png", "image/svg+xml", "text/css", "application/octet-stream", "text/html"}

func (c *Ctx) stepBudget(ref *Ref) uint64 {
	b := ref.Res.Steps * 50
	if b < 500000000 {
		b = 500000000
	}
	return b
}

// faultOn builds a fault of the given kind on a site file.
func faultOn(rng *Rng, sc *Scenario, fn string, kind string) Fault {
	f := Fault{At: "url:" + fn, Kind: kind}
	size := sc.MainSize
	if sf, ok := sc.Files[fn]; ok {
		size = sf.Size
	}
	switch kind {
	case "trunc", "cut":
		f.N = rng.Intn(size + 1)
	case "flip":
		f.N = rng.Intn(size + 1)
		f.B = int(adversarial[rng.Intn(len(adversarial))])
	case "transient":
		f.N = 1 + rng.Intn(2)
	case "mime":
		f.S = mimeFaults[rng.Intn(len(mimeFaults))]
	case "charset":
		f.S = []string{"utf-16le", "latin-1", "nonsense", "utf-16be", "shift_jis"}[rng.Intn(5)]
	case "swap":
		names := sc.FileNames()
		if len(names) > 0 {
			f.S = names[rng.Intn(len(names))]
		}
	case "redirect":
		f.S = []string{sc.Base + "elsewhere/x.css", "http://other.test/", "not a url", ""}[rng.Intn(4)]
	}
	return f
}

var faultKinds = []string{"err", "trunc", "flip", "empty", "mime", "swap", "redirect", "transient", "charset"}

func checkC01(c *Ctx) {
	c.Ev.Level = "exploration"
	c.Ev.Rule = "one case = one simulated render (parse -> layout -> write) of a corpus scenario under a fault plan of 0-3 faults at the fetch / http / reader / disk seams (err, trunc@k, flip@k, empty, wrong/missing mime, charset, swap, redirect, transient), a map-order plan, a restart pattern, an engine and optionally 2-3 concurrent tasks; non-trivial = at least one fault fired or a non-identity schedule was applied; distinct = distinct (scenario, config, fault plan, schedule). Oracle: returns to the caller (no panic, no fatal error, step budget = max(50 x fault-free steps, 5e8)) and the sentinel text outside the faulted construct is still drawn"
	c.Ev.Assume = []string{"corpus documents only: crashes that depend on the HTML/CSS text itself are input-space finds and not searched", "a fetcher returning nil content with nil error is a contract violation by the fetcher and is never generated", "stalled peers / timeouts are not simulated (the code has no deadline)", "allocation failure cannot be injected in Go"}
	rng := stream(c.Seed, "fault")
	refs := c.references(c.Corpus.List, func(sc *Scenario) []Cfg {
		out := []Cfg{defaultCfg()}
		for _, e := range sc.Engines {
			if e == "gotext" {
				out = append(out, Cfg{Engine: "gotext", Zoom: 1})
			}
		}
		return out
	})
	var keys []refKey
	for k := range refs {
		keys = append(keys, k)
	}
	sort.Slice(keys, func(i, j int) bool {
		if keys[i].Scenario != keys[j].Scenario {
			return keys[i].Scenario < keys[j].Scenario
		}
		return keys[i].Cfg < keys[j].Cfg
	})
	// fault-free references must themselves return; a scenario whose reference does not
	// is reported once and gets no fault cases (each would only burn its step budget)
	{
		var alive []refKey
		for _, k := range keys {
			r := refs[k]
			c.Ev.Distinct("ref|" + k.Scenario + k.Cfg)
			c.evalCrash(&faultCase{sc: r.Sc, cfg: r.Cfg, spec: r.Spec, label: "fault-free"}, r.Res, r)
			if cl, _, _ := crashOf(r.Res); cl == "" {
				alive = append(alive, k)
			} else {
				c.Ev.Probes["references_not_returning"]++
			}
		}
		keys = alive
	}

	var cases []*faultCase
	add := func(ref *Ref, label string, cfg Cfg, order OrderPlan, faults []Fault) {
		ops := docOps(ref.Sc, cfg, "", false)
		order.Pin = c.pinnedIDs()
		fc := &faultCase{sc: ref.Sc, cfg: cfg, label: label, faulty: map[string]bool{}}
		fc.spec = &Spec{ID: fmt.Sprintf("C01/%s/%s/%s", ref.Sc.Name, cfg, label), Order: order, Faults: faults, Tasks: [][]Op{ops}, Budget: c.stepBudget(ref)}
		for _, f := range faults {
			if strings.HasPrefix(f.At, "url:") {
				fc.faulty[f.At[4:]] = true
			}
			if f.At == "main" {
				fc.faulty[ref.Sc.Main] = true
			}
		}
		cases = append(cases, fc)
	}
	for _, k := range keys {
		ref := refs[k]
		sc := ref.Sc
		files := sc.FileNames() // includes only declared site files
		targets := append([]string{sc.Main}, files...)
		// systematic single faults: every fetched resource x {err, empty, mime "", mime wrong} (+ trunc stride in thorough)
		for _, fn := range targets {
			for _, kind := range []string{"err", "empty"} {
				add(ref, "single-"+kind+"-"+fn, ref.Cfg, OrderPlan{Mode: "canon"}, []Fault{{At: "url:" + fn, Kind: kind}})
			}
			add(ref, "single-mime-none-"+fn, ref.Cfg, OrderPlan{Mode: "canon"}, []Fault{{At: "url:" + fn, Kind: "mime", S: ""}})
			if c.Tier == "thorough" {
				add(ref, "single-mime-wrong-"+fn, ref.Cfg, OrderPlan{Mode: "canon"}, []Fault{{At: "url:" + fn, Kind: "mime", S: "text/plain"}})
				size := sc.MainSize
				if sf, ok := sc.Files[fn]; ok {
					size = sf.Size
				}
				stride := size/24 + 1
				for n := 0; n < size; n += stride {
					add(ref, fmt.Sprintf("single-trunc%d-%s", n, fn), ref.Cfg, OrderPlan{Mode: "canon"}, []Fault{{At: "url:" + fn, Kind: "trunc", N: n}})
				}
			}
		}
		// total outage of one kind of resource (every image, every stylesheet, every font,
		// everything but the main document): combinations that single faults never reach
		{
			byKind := map[string][]Fault{}
			var all []Fault
			for _, fn := range files {
				k := sc.Files[fn].Kind
				if k == "" {
					k = "other"
				}
				for _, fk := range []string{"err", "empty"} {
					byKind[k+"-"+fk] = append(byKind[k+"-"+fk], Fault{At: "url:" + fn, Kind: fk})
				}
				all = append(all, Fault{At: "url:" + fn, Kind: "err"})
			}
			var ks []string
			for k := range byKind {
				ks = append(ks, k)
			}
			sort.Strings(ks)
			for _, k := range ks {
				if len(byKind[k]) > 1 {
					add(ref, "outage-"+k, ref.Cfg, OrderPlan{Mode: "canon"}, byKind[k])
				}
			}
			if len(all) > 1 {
				add(ref, "outage-all", ref.Cfg, OrderPlan{Mode: "canon"}, all)
			}
		}
		// presentational hints on (legacy HTML attributes enter the cascade), fault-free
		{
			cfg := ref.Cfg
			cfg.Hints = true
			add(ref, "hints", cfg, OrderPlan{Mode: "canon"}, nil)
		}
		// the other legal ways a caller hands over the main document, fault-free: an io.Reader
		// delivering small chunks whose last read also returns io.EOF, one delivering everything at
		// once, a string; the whole text must still be drawn
		for _, in := range []struct {
			label, input string
			chunk        uint64
		}{{"reader-eofdata", "reader", 3 + 4*uint64(len(sc.Name))}, {"reader-chunks", "reader", 1 + 4*uint64(len(sc.Name))}, {"reader-whole", "reader", 0}, {"string", "string", 0}} {
			cfg := ref.Cfg
			cfg.Input, cfg.Chunk = in.input, in.chunk
			add(ref, in.label, cfg, OrderPlan{Mode: "canon"}, nil)
		}
		// restart patterns without faults (every subset)
		if K := sc.Expect.Probes; K > 0 && ref.Cfg.Engine == "pango" {
			for _, s := range subsets(K)[1:] {
				cfg := ref.Cfg
				cfg.Probes = s
				add(ref, fmt.Sprintf("probes%v", s), cfg, OrderPlan{Mode: "reverse"}, nil)
			}
		}
		// seeded multi-fault plans
		n := 30
		if c.Tier == "thorough" {
			n = 300
		}
		for i := 0; i < n; i++ {
			cfg := ref.Cfg
			nf := 1 + rng.Intn(3)
			var faults []Fault
			for j := 0; j < nf; j++ {
				fn := targets[rng.Intn(len(targets))]
				kind := faultKinds[rng.Intn(len(faultKinds))]
				if kind == "flip" && textResource(sc, fn) {
					// stored-byte corruption of document TEXT is a search of the input
					// space around the corpus; it is C07's business at the parse stage.
					// Here text resources meet transport-level faults only.
					kind = "trunc"
				}
				f := faultOn(rng, sc, fn, kind)
				if rng.Intn(4) == 0 && len(ref.Res.Fetches) > 0 {
					// by fetch sequence number (transient in time rather than per URL)
					f.At = fmt.Sprintf("seq:%d", rng.Intn(len(ref.Res.Fetches)))
					f.Op = "h"
				}
				faults = append(faults, f)
			}
			switch rng.Intn(4) {
			case 0:
				cfg.Input = "reader"
				cfg.Chunk = rng.Next() | 1
				switch rng.Intn(3) {
				case 0:
					faults = append(faults, Fault{At: "main", Kind: "err", N: rng.Intn(sc.MainSize + 1)})
				case 1:
					faults = append(faults, Fault{At: "main", Kind: "closeerr"})
				case 2:
					faults = append(faults, Fault{At: "main", Kind: "trunc", N: rng.Intn(sc.MainSize + 1)})
				}
			case 1:
				cfg.Hints = true
			}
			if K := sc.Expect.Probes; K > 0 && rng.Intn(2) == 0 {
				all := subsets(K)
				cfg.Probes = all[1+rng.Intn(len(all)-1)]
			}
			if rng.Intn(5) == 0 {
				faults = append(faults, Fault{At: "disk:" + []string{"AHEM____.TTF", "weasyprint.otf"}[rng.Intn(2)], Kind: []string{"err", "eio", "trunc", "empty"}[rng.Intn(4)], N: rng.Intn(4000)})
			}
			order := OrderPlan{Mode: []string{"canon", "reverse", "shuffle", "rotate"}[rng.Intn(4)], Seed: rng.Next()}
			add(ref, fmt.Sprintf("multi%d", i), cfg, order, faults)
		}
	}
	c.Logf("C01: %d references, %d fault cases", len(keys), len(cases))
	const chunk = 1024
	for off := 0; off < len(cases); off += chunk {
		if c.TimeLeft() < 0 && off > 0 {
			c.Ev.Extra["cases_skipped_for_time"] = len(cases) - off
			break
		}
		end := off + chunk
		if end > len(cases) {
			end = len(cases)
		}
		var specs []*Spec
		for _, fc := range cases[off:end] {
			specs = append(specs, fc.spec)
		}
		results := c.runBatch(specs)
		for i, r := range results {
			fc := cases[off+i]
			fired := 0
			for _, v := range r.FaultsFired {
				fired += v
			}
			if fired > 0 || len(fc.cfg.Probes) > 0 || fc.spec.Order.Mode != "canon" {
				c.Ev.Distinct(fc.spec.ID)
			}
			if len(c.Ev.Samples) < 8 && fired > 0 {
				c.Ev.Sample(map[string]interface{}{"scenario": fc.sc.Name, "cfg": fc.cfg.String(), "faults": fc.spec.Faults, "order": fc.spec.Order.Mode, "fired": r.FaultsFired})
			}
			c.evalCrash(fc, r, refs[refKey{fc.sc.Name, Cfg{Engine: fc.cfg.Engine, Zoom: 1}.String()}])
		}
	}
	c.stageHTTP(refs, keys)
	c.stageConcurrentFaults(refs, keys)
}

// evalCrash applies the C01 oracles to one result.
func (c *Ctx) evalCrash(fc *faultCase, r *Result, ref *Ref) {
	if cl, where, detail := crashOf(r); cl != "" {
		for _, f := range c.Findings {
			if f.Class == cl && f.Where == where && f.Scenario == fc.sc.Name {
				return
			}
		}
		c.Findings = append(c.Findings, c.minimizeCrash(fc, cl, where, detail))
		return
	}
	// the rest of the document is still rendered
	if fc.cfg.Engine == "gotext" {
		return // drawing is a stub in the repository: no text reaches the backend
	}
	w := r.op("t")
	if w == nil || w.Status != "ok" {
		return // html op returned an error to the caller (main document unavailable): legal
	}
	mainFaulted := fc.faulty[fc.sc.Main]
	for _, f := range fc.spec.Faults {
		if f.At == "main" || strings.HasPrefix(f.At, "seq:") || strings.HasPrefix(f.At, "disk:") {
			mainFaulted = true // may hit the main document / fonts: sentinel text not guaranteed
		}
		if f.Kind == "swap" || f.Kind == "flip" || f.Kind == "charset" {
			// stored-byte corruption / misdelivery of a stylesheet can legitimately hide text (display:none...)
			mainFaulted = true
		}
		if sf, ok := fc.sc.Files[strings.TrimPrefix(f.At, "url:")]; ok && (sf.Kind == "css" || sf.Kind == "font") && (f.Kind == "trunc" || f.Kind == "mime") {
			// a truncated stylesheet may end inside a rule; keep the oracle to clean failures
			if sf.Kind == "font" {
				mainFaulted = true
			}
		}
	}
	if mainFaulted {
		return
	}
	for _, is := range checkSentinels(fc.sc, w, fc.faulty) {
		dup := false
		for _, f := range c.Findings {
			if f.Class == is.Class && f.Scenario == fc.sc.Name {
				dup = true
			}
		}
		if dup {
			continue
		}
		c.Findings = append(c.Findings, &Finding{Class: is.Class, Scenario: fc.sc.Name, Where: is.Where, Detail: fmt.Sprintf("faults=%v: %s", fc.spec.Faults, is.Detail),
			Oracle: "sentinel words outside the faulted construct must still reach DrawText", Spec: fc.spec, Expect: is.Class + "@" + is.Where})
	}
}

// minimizeCrash: drop faults, lower truncation offsets, canonical order, fewer probes.
func (c *Ctx) minimizeCrash(fc *faultCase, class, where, detail string) *Finding {
	same := func(sp *Spec) bool {
		r := c.Pool.Run([]*Spec{sp}, nil)[0]
		if r.Fatal != "" {
			r = c.Pool.RunFresh(sp)
		}
		cl, wh, _ := crashOf(r)
		return cl == class && wh == where
	}
	if !c.mayMinimize() {
		return &Finding{Class: class, Scenario: fc.sc.Name, Where: where, Detail: "(not minimised) " + detail, Spec: fc.spec, Oracle: "returns to the caller", Expect: class + "@" + where}
	}
	cur := cloneSpec(fc.spec)
	cur.ID += "/min"
	if !same(cur) {
		return &Finding{Class: class, Scenario: fc.sc.Name, Where: where, Detail: detail + " (not reproduced on re-run)", Spec: fc.spec, Oracle: "returns to the caller", Expect: class + "@" + where}
	}
	for i := 0; i < len(cur.Faults); {
		cand := cloneSpec(cur)
		cand.Faults = append(append([]Fault{}, cur.Faults[:i]...), cur.Faults[i+1:]...)
		if same(cand) {
			cur = cand
		} else {
			i++
		}
	}
	if cur.Order.Mode != "canon" {
		cand := cloneSpec(cur)
		cand.Order = OrderPlan{Mode: "canon"}
		if same(cand) {
			cur = cand
		}
	}
	// drop the probes stylesheet
	for ti := range cur.Tasks {
		cand := cloneSpec(cur)
		var ops []Op
		for _, o := range cand.Tasks[ti] {
			if o.Op == "css" && o.Text != "" {
				continue
			}
			if o.Op == "render" {
				var keep []string
				for _, id := range o.CSS {
					if !strings.HasSuffix(id, "probes") {
						keep = append(keep, id)
					}
				}
				o.CSS = keep
			}
			ops = append(ops, o)
		}
		cand.Tasks[ti] = ops
		if same(cand) {
			cur = cand
		}
	}
	// lower truncation offsets (binary search for the smallest crashing prefix is not
	// monotone in general; try a few smaller values)
	for i := range cur.Faults {
		if cur.Faults[i].Kind != "trunc" {
			continue
		}
		for _, n := range []int{0, cur.Faults[i].N / 4, cur.Faults[i].N / 2, cur.Faults[i].N - 1} {
			if n < 0 || n >= cur.Faults[i].N {
				continue
			}
			cand := cloneSpec(cur)
			cand.Faults[i].N = n
			if same(cand) {
				cur = cand
				break
			}
		}
	}
	return &Finding{Class: class, Scenario: fc.sc.Name, Where: where, Detail: fmt.Sprintf("faults=%v order=%s: %s", cur.Faults, cur.Order.Mode, detail),
		Oracle: "render returns to the caller: no panic, no fatal runtime error, within the step budget", Spec: cur, Expect: class + "@" + where}
}

// stageHTTP drives utils.DefaultUrlFetcher's real code over the SimTransport:
// gzip bodies cut mid-stream, connection errors after k bytes, missing headers.
func (c *Ctx) stageHTTP(refs map[refKey]*Ref, keys []refKey) {
	rng := stream(c.Seed, "http")
	var cases []*faultCase
	n := 24
	if c.Tier == "thorough" {
		n = 400
	}
	for _, k := range keys {
		ref := refs[k]
		if ref.Sc.Family != "res" || ref.Cfg.Engine != "pango" {
			continue
		}
		files := append([]string{ref.Sc.Main}, ref.Sc.FileNames()...)
		// systematic: the connection dies after 0, 1, 2 or all-but-one body bytes of every resource
		var sysFaults []Fault
		for _, fn := range files {
			size := ref.Sc.MainSize
			if sf, ok := ref.Sc.Files[fn]; ok {
				size = sf.Size
			}
			for _, nb := range []int{0, 1, 2, size - 1} {
				if nb >= 0 {
					sysFaults = append(sysFaults, Fault{Op: "http", At: "url:" + fn, Kind: "trunc", N: nb})
					sysFaults = append(sysFaults, Fault{Op: "http", At: "url:" + fn, Kind: "cut", N: nb})
				}
			}
			sysFaults = append(sysFaults, Fault{Op: "http", At: "url:" + fn, Kind: "empty"})
			// what servers really answer: error statuses with a body (and "come back at once"),
			// and a Content-Length that is absurd or too small for the body that follows
			for _, code := range []int{503, 429, 404, 500, 204, 301} {
				sysFaults = append(sysFaults, Fault{Op: "http", At: "url:" + fn, Kind: "status", N: code})
			}
			sysFaults = append(sysFaults, Fault{Op: "http", At: "url:" + fn, Kind: "clen", N: -1})
			sysFaults = append(sysFaults, Fault{Op: "http", At: "url:" + fn, Kind: "clen", N: 1})
		}
		for i := 0; i < n+len(sysFaults); i++ {
			cfg := ref.Cfg
			cfg.ViaHTTP = true
			var faults []Fault
			if i >= n {
				faults = []Fault{sysFaults[i-n]}
			} else if i > 0 {
				fn := files[rng.Intn(len(files))]
				kind := []string{"err", "trunc", "mime", "charset", "empty", "flip", "transient", "cut"}[rng.Intn(8)]
				if kind == "flip" && textResource(ref.Sc, fn) {
					kind = "trunc"
				}
				f := faultOn(rng, ref.Sc, fn, kind)
				f.Op = "http"
				faults = append(faults, f)
			}
			fc := &faultCase{sc: ref.Sc, cfg: cfg, label: "http", faulty: map[string]bool{}}
			fc.spec = &Spec{ID: fmt.Sprintf("C01/http/%s/%d", ref.Sc.Name, i), Order: OrderPlan{Mode: "canon"}, Faults: faults, Tasks: [][]Op{docOps(ref.Sc, cfg, "", false)}, Budget: c.stepBudget(ref)}
			for _, f := range faults {
				fc.faulty[strings.TrimPrefix(f.At, "url:")] = true
			}
			cases = append(cases, fc)
		}
	}
	var specs []*Spec
	for _, fc := range cases {
		specs = append(specs, fc.spec)
	}
	results := c.runBatch(specs)
	for i, r := range results {
		fc := cases[i]
		c.Ev.Distinct(fc.spec.ID)
		c.Ev.Probes["http_transport_runs"]++
		if len(r.Fetches) > 0 && r.Fetches[0].Op == "http" {
			c.Ev.Probes["http_transport_fetches"] += len(r.Fetches)
		}
		// sentinel oracle only for fault-free http runs and clean failures of non-main resources
		if cl, where, detail := crashOf(r); cl != "" {
			c.Findings = append(c.Findings, c.minimizeCrash(fc, cl, where, detail))
		} else if len(fc.spec.Faults) == 0 {
			for _, is := range checkSentinels(fc.sc, r.op("t"), nil) {
				c.Findings = append(c.Findings, &Finding{Class: is.Class, Scenario: fc.sc.Name, Where: "http/" + is.Where, Detail: is.Detail, Spec: fc.spec, Oracle: "fault-free render through DefaultUrlFetcher over SimTransport draws the sentinel text", Expect: is.Class + "@http/" + is.Where})
			}
		}
	}
	c.Logf("C01 http stage: %d runs", len(cases))
}

// stageConcurrentFaults: 2-3 token-scheduled renders, one of which meets faults.
func (c *Ctx) stageConcurrentFaults(refs map[refKey]*Ref, keys []refKey) {
	rng := stream(c.Seed, "c01-sched")
	n := 120
	if c.Tier == "thorough" {
		n = 2000
	}
	var small []refKey
	for _, k := range keys {
		if refs[k].Res.Steps < 1200000 && refs[k].Cfg.Engine == "pango" {
			small = append(small, k)
		}
	}
	if len(small) < 2 {
		return
	}
	var specs []*Spec
	var fcs []*faultCase
	for i := 0; i < n; i++ {
		nt := 2 + rng.Intn(2)
		sp := &Spec{ID: fmt.Sprintf("C01/conc/%d", i), Order: OrderPlan{Mode: []string{"canon", "shuffle"}[rng.Intn(2)], Seed: rng.Next(), Pin: c.pinnedIDs()}}
		var total uint64
		var first *Ref
		for t := 0; t < nt; t++ {
			ref := refs[small[rng.Intn(len(small))]]
			if first == nil {
				first = ref
			}
			sp.Tasks = append(sp.Tasks, docOps(ref.Sc, ref.Cfg, "", false))
			total += ref.Res.Steps
			if rng.Intn(2) == 0 {
				names := append([]string{ref.Sc.Main}, ref.Sc.FileNames()...)
				fn, kind := names[rng.Intn(len(names))], faultKinds[rng.Intn(len(faultKinds))]
				if kind == "flip" && textResource(ref.Sc, fn) {
					kind = "err"
				}
				sp.Faults = append(sp.Faults, faultOn(rng, ref.Sc, fn, kind))
			}
		}
		sp.Budget = total*50 + 500000000
		for j := 0; j < 1+rng.Intn(5); j++ {
			sp.Preempt = append(sp.Preempt, Preempt{Step: 1 + rng.Next()%total, To: rng.Intn(nt)})
		}
		sort.Slice(sp.Preempt, func(a, b int) bool { return sp.Preempt[a].Step < sp.Preempt[b].Step })
		specs = append(specs, sp)
		fcs = append(fcs, &faultCase{sc: first.Sc, cfg: first.Cfg, spec: sp, label: "concurrent"})
	}
	results := c.runBatch(specs)
	for i, r := range results {
		if len(r.Switches) > 0 {
			c.Ev.Distinct(specs[i].ID)
		}
		if cl, where, detail := crashOf(r); cl != "" {
			c.Findings = append(c.Findings, c.minimizeCrash(fcs[i], cl, where, detail))
		}
	}
	c.Logf("C01 concurrent stage: %d runs", len(specs))
}
