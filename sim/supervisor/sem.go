package main

// Shared driver of the "slice" properties C02, C12, C14 (DESIGN.md §6, §8): the
// frozen corpus is run under seeded restart patterns (subsets of active
// pages-probes), map-order schedules, configurations, decorative fetch faults and
// repeated writes; the property's oracles are evaluated on every run.

import (
	"fmt"
	"sort"
	"strings"
)

type semCase struct {
	sc     *Scenario
	cfg    Cfg
	spec   *Spec
	twin   string // key of the restart-free twin run (same engine/hints/zoom, canon)
	label  string
	faulty map[string]bool
}

type semDriver struct {
	c       *Ctx
	use     func(*Scenario) bool
	oracles func(cs *semCase, res *Result, twin *Result) []Issue
	withZoom, withFaults, withRewrite bool
	perScenarioQuick, perScenarioThorough int
}

func twinKey(sc *Scenario, cfg Cfg) string {
	return fmt.Sprintf("%s|%s|%v|%g", sc.Name, cfg.Engine, cfg.Hints, cfg.Zoom)
}

func subsets(k int) [][]int {
	var out [][]int
	for m := 0; m < 1<<k; m++ {
		var s []int
		for i := 0; i < k; i++ {
			if m&(1<<i) != 0 {
				s = append(s, i)
			}
		}
		out = append(out, s)
	}
	return out
}

func (d *semDriver) mkSpec(id string, sc *Scenario, cfg Cfg, order OrderPlan, faults []Fault, rewrite bool) *Spec {
	ops := docOps(sc, cfg, "", true)
	if rewrite {
		ops = append(ops, Op{Op: "write", ID: "t2", Doc: "d", Zoom: cfg.Zoom})
	}
	order.Pin = d.c.pinnedIDs()
	return &Spec{ID: id, Order: order, Tasks: [][]Op{ops}, Faults: faults}
}

func (d *semDriver) run() {
	c := d.c
	rng := stream(c.Seed, "sem/"+c.Prop)
	var scs []*Scenario
	for _, sc := range c.Corpus.List {
		if d.use(sc) {
			scs = append(scs, sc)
		}
	}
	// 1. twins (restart-free, canonical order) for every engine/zoom we will use
	twinSpecs := map[string]*Spec{}
	var tkeys []string
	addTwin := func(sc *Scenario, cfg Cfg) string {
		cfg.Probes = nil
		cfg.Input = ""
		k := twinKey(sc, cfg)
		if _, ok := twinSpecs[k]; !ok {
			twinSpecs[k] = d.mkSpec("twin/"+k, sc, cfg, OrderPlan{Mode: "canon"}, nil, false)
			twinSpecs[k].Budget = 400000000
			tkeys = append(tkeys, k)
		}
		return k
	}
	var cases []*semCase
	per := d.perScenarioQuick
	if c.Tier == "thorough" {
		per = d.perScenarioThorough
	}
	for _, sc := range scs {
		engines := []string{"pango"}
		for _, e := range sc.Engines {
			if e == "gotext" {
				engines = append(engines, e)
			}
		}
		base := Cfg{Engine: "pango", Zoom: 1}
		add := func(label string, cfg Cfg, order OrderPlan, faults []Fault, rewrite bool) {
			cs := &semCase{sc: sc, cfg: cfg, label: label, twin: addTwin(sc, cfg), faulty: map[string]bool{}}
			cs.spec = d.mkSpec(fmt.Sprintf("%s/%s/%s/%s", c.Prop, sc.Name, cfg, label), sc, cfg, order, faults, rewrite)
			for _, f := range faults {
				if strings.HasPrefix(f.At, "url:") {
					cs.faulty[f.At[4:]] = true
				}
			}
			cases = append(cases, cs)
		}
		// systematic core
		add("canon", base, OrderPlan{Mode: "canon"}, nil, false)
		add("reverse-all", base, OrderPlan{Mode: "reverse"}, nil, false)
		for _, e := range engines[1:] {
			add("canon", Cfg{Engine: e, Zoom: 1}, OrderPlan{Mode: "canon"}, nil, false)
		}
		K := sc.Expect.Probes
		if K > 0 {
			all := subsets(K)
			for _, s := range all[1:] {
				if len(s) == 1 || len(s) == K || c.Tier == "thorough" {
					cfg := base
					cfg.Probes = s
					add("canon", cfg, OrderPlan{Mode: "canon"}, nil, false)
				}
			}
		}
		// seeded part
		for i := 0; i < per; i++ {
			cfg := base
			if len(engines) > 1 && rng.Intn(4) == 0 {
				cfg.Engine = engines[1]
			}
			if K > 0 && rng.Intn(3) != 0 {
				all := subsets(K)
				cfg.Probes = all[1+rng.Intn(len(all)-1)]
			}
			if d.withZoom && rng.Intn(3) == 0 {
				cfg.Zoom = []float64{0.5, 1.5, 2, 0.1}[rng.Intn(4)]
			}
			switch rng.Intn(5) {
			case 0:
				cfg.Input = "reader"
				cfg.Chunk = rng.Next() | 1
			case 1:
				cfg.Input = "string"
			}
			if rng.Intn(6) == 0 {
				cfg.Hints = true
			}
			var order OrderPlan
			switch rng.Intn(4) {
			case 0:
				order = OrderPlan{Mode: "canon"}
			case 1:
				order = OrderPlan{Mode: "reverse"}
			case 2:
				order = OrderPlan{Mode: "shuffle", Seed: rng.Next()}
			default:
				order = OrderPlan{Mode: "rotate", Seed: rng.Next()}
			}
			var faults []Fault
			if d.withFaults && rng.Intn(3) == 0 {
				// one fault on a decorative resource (image / attachment / font / css)
				names := sc.FileNames()
				if len(names) > 0 {
					fn := names[rng.Intn(len(names))]
					kinds := []string{"err", "trunc", "empty", "transient", "mime"}
					k := kinds[rng.Intn(len(kinds))]
					f := Fault{At: "url:" + fn, Kind: k}
					switch k {
					case "trunc":
						f.N = rng.Intn(sc.Files[fn].Size + 1)
					case "transient":
						f.N = 1
					case "mime":
						f.S = []string{"", "text/plain", "image/png", "text/css"}[rng.Intn(4)]
					}
					faults = []Fault{f}
				}
			}
			rewrite := d.withRewrite && rng.Intn(4) == 0
			add(fmt.Sprintf("s%d", i), cfg, order, faults, rewrite)
		}
	}
	// run twins
	var tspecs []*Spec
	for _, k := range tkeys {
		tspecs = append(tspecs, twinSpecs[k])
	}
	tres := c.runBatch(tspecs)
	twins := map[string]*Result{}
	for i, k := range tkeys {
		twins[k] = tres[i]
	}
	// a twin that does not return makes its scenario unevaluable for this property:
	// report it once and skip the scenario's cases (C01 owns the crash itself)
	{
		dead := map[string]bool{}
		for _, k := range tkeys {
			if cl, wh, de := crashOf(twins[k]); cl != "" {
				dead[k] = true
				name := strings.SplitN(k, "|", 2)[0]
				c.Findings = append(c.Findings, &Finding{Class: "unevaluable:" + cl, Scenario: name, Where: wh,
					Detail: "the restart-free, canonical-order, fault-free run of the scenario does not return, so no oracle of this property can be evaluated on it: " + de,
					Oracle: "run returns", Spec: twinSpecs[k], Expect: "unevaluable:" + cl + "@" + wh})
			}
		}
		var kept []*semCase
		for _, cs := range cases {
			if !dead[cs.twin] {
				kept = append(kept, cs)
			}
		}
		cases = kept
	}
	// step budget of every case: 50 x the steps of its twin (a deterministic,
	// replayable non-termination verdict instead of the wall-clock watchdog)
	for _, cs := range cases {
		b := uint64(300000000)
		if t := twins[cs.twin]; t != nil && t.Steps*50 > b {
			b = t.Steps * 50
		}
		cs.spec.Budget = b
	}
	c.Logf("%s: %d scenarios, %d twins, %d cases", c.Prop, len(scs), len(tkeys), len(cases))
	// run cases
	const chunk = 768
	nIssues := 0
	reported := map[string]int{}
	for off := 0; off < len(cases); off += chunk {
		if c.TimeLeft() < 0 && off > 0 {
			c.Ev.Extra["cases_skipped_for_time"] = len(cases) - off
			break
		}
		end := off + chunk
		if end > len(cases) {
			end = len(cases)
		}
		var specs []*Spec
		for _, cs := range cases[off:end] {
			specs = append(specs, cs.spec)
		}
		results := c.runBatch(specs)
		for i, r := range results {
			cs := cases[off+i]
			d.account(cs, r)
			issues := d.oracles(cs, r, twins[cs.twin])
			if cl, wh, de := crashOf(r); cl != "" {
				// the property's oracle cannot be evaluated on a run that did not return.
				// If the restart-free, canonical twin returns, the crash is schedule-,
				// restart- or fault-dependent and is reported here (it hides the property);
				// otherwise it is C01's business alone.
				if tcl, _, _ := crashOf(twins[cs.twin]); tcl == "" {
					issues = append(issues, Issue{"unevaluable:" + cl, wh, "the run did not return, so the oracle could not be evaluated: " + de})
				} else {
					c.Ev.Probes["runs_unevaluable_twin_crashes_too"]++
				}
			}
			for _, is := range issues {
				nIssues++
				key := cs.sc.Name + "|" + is.Class + "|" + is.Where
				reported[key]++
				if reported[key] > 1 {
					continue
				}
				c.Findings = append(c.Findings, d.minimize(cs, is, twins[cs.twin]))
			}
		}
	}
	c.Ev.Probes["oracle_issues_total"] = nIssues
	c.Logf("%s: %d oracle issues (%d distinct)", c.Prop, nIssues, len(reported))
}

func (d *semDriver) account(cs *semCase, r *Result) {
	c := d.c
	nontrivial := len(cs.cfg.Probes) > 0 || len(cs.spec.Faults) > 0 || cs.cfg.Zoom != 1 || cs.cfg.Input != "" || cs.cfg.Engine != "pango"
	for _, st := range r.Sites {
		if st.Permuted > 0 {
			nontrivial = true
		}
	}
	if nontrivial {
		c.Ev.Distinct(cs.spec.ID)
	}
	if len(cs.cfg.Probes) > 0 {
		c.Ev.Probes["runs_with_restarts"]++
		pat := fmt.Sprintf("%s%v", cs.sc.Name, cs.cfg.Probes)
		if c.Ev.Extra["restart_patterns"] == nil {
			c.Ev.Extra["restart_patterns"] = map[string]bool{}
		}
		c.Ev.Extra["restart_patterns"].(map[string]bool)[pat] = true
	}
	if len(c.Ev.Samples) < 6 && nontrivial {
		c.Ev.Sample(map[string]interface{}{"scenario": cs.sc.Name, "cfg": cs.cfg.String(), "order": cs.spec.Order.Mode, "order_seed": cs.spec.Order.Seed, "faults": cs.spec.Faults, "label": cs.label})
	}
}

// minimize shrinks a failing case while the same issue (class, where) persists:
// canonical order (or a minimal site set), fewer probes, default zoom/input, no fault.
func (d *semDriver) minimize(cs *semCase, is Issue, twin *Result) *Finding {
	c := d.c
	if !c.mayMinimize() {
		return &Finding{Class: is.Class, Scenario: cs.sc.Name, Where: is.Where, Detail: fmt.Sprintf("(not minimised) cfg=%s order=%s faults=%v: %s", cs.cfg, cs.spec.Order.Mode, cs.spec.Faults, is.Detail), Spec: cs.spec, Oracle: c.Prop + " oracle", Expect: is.Class + "@" + is.Where}
	}
	has := func(cand *semCase) bool {
		r := c.Pool.Run([]*Spec{cand.spec}, nil)[0]
		for _, x := range d.oracles(cand, r, twin) {
			if x.Class == is.Class && x.Where == is.Where {
				return true
			}
		}
		return false
	}
	rebuild := func(cfg Cfg, order OrderPlan, faults []Fault, rewrite bool) *semCase {
		n := &semCase{sc: cs.sc, cfg: cfg, label: cs.label, twin: cs.twin, faulty: cs.faulty}
		n.spec = d.mkSpec(cs.spec.ID+"/min", cs.sc, cfg, order, faults, rewrite)
		return n
	}
	rewrite := false
	for _, o := range cs.spec.Tasks[0] {
		if o.ID == "t2" {
			rewrite = true
		}
	}
	cur := cs
	curOrder, curFaults := cs.spec.Order, cs.spec.Faults
	try := func(cand *semCase, order OrderPlan, faults []Fault) bool {
		if has(cand) {
			cur, curOrder, curFaults = cand, order, faults
			return true
		}
		return false
	}
	if !has(cs) {
		// not reproducible: report as is, flagged
		return &Finding{Class: is.Class, Scenario: cs.sc.Name, Where: is.Where, Detail: is.Detail + " (did not reproduce on re-run: infrastructure?)", Spec: cs.spec, Oracle: c.Prop + " oracle", Expect: is.Class + "@" + is.Where}
	}
	// faults
	if len(curFaults) > 0 {
		try(rebuild(cur.cfg, curOrder, nil, rewrite), curOrder, nil)
	}
	if rewrite {
		if cand := rebuild(cur.cfg, curOrder, curFaults, false); has(cand) {
			cur, rewrite = cand, false
		}
	}
	// order
	orderWhere := ""
	if curOrder.Mode != "canon" {
		if !try(rebuild(cur.cfg, OrderPlan{Mode: "canon"}, curFaults, rewrite), OrderPlan{Mode: "canon"}, curFaults) {
			// the issue needs a non-canonical order: find a minimal site set
			r := c.Pool.Run([]*Spec{cur.spec}, nil)[0]
			var rel []int
			for id, st := range r.Sites {
				if st.Permuted > 0 {
					rel = append(rel, id)
				}
			}
			sort.Ints(rel)
			test := func(ss []int) bool {
				o := curOrder
				o.Sites = append([]int{}, ss...)
				return has(rebuild(cur.cfg, o, curFaults, rewrite))
			}
			if len(rel) > 0 && test(rel) {
				min := rel
				single := false
				for _, s := range rel {
					if test([]int{s}) {
						min, single = []int{s}, true
						break
					}
				}
				if !single {
					min = ddminInts(rel, test)
				}
				o := curOrder
				o.Sites = min
				cur, curOrder = rebuild(cur.cfg, o, curFaults, rewrite), o
				var names []string
				for _, s := range min {
					names = append(names, c.Build.SiteName(s))
				}
				orderWhere = " needs non-canonical order at " + strings.Join(names, "+")
			}
		}
	}
	// probes
	for i := 0; i < len(cur.cfg.Probes); {
		cfg := cur.cfg
		cfg.Probes = append(append([]int{}, cur.cfg.Probes[:i]...), cur.cfg.Probes[i+1:]...)
		if len(cfg.Probes) == 0 {
			cfg.Probes = nil
		}
		if !try(rebuild(cfg, curOrder, curFaults, rewrite), curOrder, curFaults) {
			i++
		}
	}
	// configuration
	if cur.cfg.Zoom != 1 {
		cfg := cur.cfg
		cfg.Zoom = 1
		try(rebuild(cfg, curOrder, curFaults, rewrite), curOrder, curFaults)
	}
	if cur.cfg.Input != "" {
		cfg := cur.cfg
		cfg.Input, cfg.Chunk = "", 0
		try(rebuild(cfg, curOrder, curFaults, rewrite), curOrder, curFaults)
	}
	if cur.cfg.Hints {
		cfg := cur.cfg
		cfg.Hints = false
		try(rebuild(cfg, curOrder, curFaults, rewrite), curOrder, curFaults)
	}
	// final detail from the minimised run
	detail := is.Detail
	r := c.Pool.Run([]*Spec{cur.spec}, nil)[0]
	for _, x := range d.oracles(cur, r, twin) {
		if x.Class == is.Class && x.Where == is.Where {
			detail = x.Detail
		}
	}
	what := fmt.Sprintf("cfg=%s order=%s", cur.cfg, curOrder.Mode)
	if len(curFaults) > 0 {
		what += fmt.Sprintf(" faults=%v", curFaults)
	}
	var twinSpec *Spec
	if strings.HasPrefix(is.Class, "restart:") {
		twinSpec = d.mkSpec("twin", cs.sc, Cfg{Engine: cur.cfg.Engine, Hints: cur.cfg.Hints, Zoom: cur.cfg.Zoom}, OrderPlan{Mode: "canon"}, nil, false)
	}
	return &Finding{Class: is.Class, Scenario: cs.sc.Name, Where: is.Where, Detail: what + orderWhere + ": " + detail,
		Oracle: c.Prop + " oracle over the recorded backend calls and the scenario's construction facts", Spec: cur.spec, Spec2: twinSpec, Expect: is.Class + "@" + is.Where}
}
