package main

import (
	"os"
	"strings"
)

func scratchBase() string {
	if d := os.Getenv("VERIF_SCRATCH"); d != "" {
		return d
	}
	if fi, err := os.Stat("/dev/shm"); err == nil && fi.IsDir() {
		return "/dev/shm"
	}
	return os.TempDir()
}

func mkScratch(label string) (string, error) {
	return os.MkdirTemp(scratchBase(), "verif-"+label+"-")
}

func rmScratch(dir string) {
	if strings.Contains(dir, "verif-") {
		os.RemoveAll(dir)
	}
}

func readLines(path string) []string {
	b, err := os.ReadFile(path)
	if err != nil {
		return nil
	}
	s := strings.TrimRight(string(b), "\n")
	if s == "" {
		return nil
	}
	return strings.Split(s, "\n")
}
