package main

import (
	"fmt"
	"sort"
	"strings"
)

// runBatch executes specs on the pool and folds their statistics into the evidence.
// A Fatal result (worker died / watchdog) is re-executed once alone in a fresh
// process; if it does not reproduce it is reported as infrastructure trouble, never
// as a violation.
func (c *Ctx) runBatch(specs []*Spec) []*Result {
	results := c.Pool.Run(specs, nil)
	// confirmations run in parallel; watchdog verdicts beyond the first few of a batch are
	// not re-run (each costs the long confirmation timeout) and are then NOT reported
	var fatal []int
	nTimeout := 0
	for i, r := range results {
		if r.Fatal == "" || r.FatalClass == "infra" {
			continue
		}
		if r.FatalClass == "timeout" {
			nTimeout++
			if nTimeout > 6 {
				c.Ev.Probes["watchdog_verdicts_not_confirmed"]++
				results[i] = &Result{ID: r.ID} // unknown outcome: no verdict
				continue
			}
		}
		fatal = append(fatal, i)
	}
	if len(fatal) > 0 {
		conf := make([]*Result, len(fatal))
		sem := make(chan struct{}, c.Pool.n)
		done := make(chan int, len(fatal))
		for k, i := range fatal {
			go func(k, i int) {
				sem <- struct{}{}
				conf[k] = c.Pool.RunFresh(specs[i])
				<-sem
				done <- k
			}(k, i)
		}
		for range fatal {
			<-done
		}
		for k, i := range fatal {
			if conf[k].Fatal == "" && results[i].FatalClass == "timeout" {
				// slow under load, not stuck: the confirmation (alone, longer limit) returned
				c.Ev.Probes["watchdog_verdicts_not_reproduced"]++
			} else if conf[k].Fatal == "" {
				c.Infra("run %s died (%s) but did not reproduce alone; stderr: %s", specs[i].ID, results[i].FatalClass, clip(results[i].Stderr, 600))
			}
			results[i] = conf[k]
		}
	}
	for i, r := range results {
		if r.FatalClass == "infra" {
			c.Infra("run %s: %s", specs[i].ID, r.Fatal)
		}
		c.Ev.Absorb(c, specs[i], results[i])
		if results[i].Unregistered > 0 {
			c.Infra("run %s: %d map keys with unregistered pointers (rewriter missed an insertion path)", specs[i].ID, results[i].Unregistered)
		}
	}
	return results
}

// crashOf returns a description of the first crash in a result ("" if none):
// class, where, detail.
func crashOf(r *Result) (class, where, detail string) {
	if r.Fatal != "" {
		return "fatal:" + r.FatalClass, fatalFrame(r.Stderr), firstLines(r.Stderr, 6)
	}
	for i := range r.Ops {
		o := &r.Ops[i]
		switch o.Status {
		case "panic":
			return "panic", o.Frame, fmt.Sprintf("op %s/%s panicked: %s", o.Op, o.ID, clip(o.Err, 300))
		case "budget":
			return "budget", o.Frame, fmt.Sprintf("op %s/%s exceeded the step budget: %s", o.Op, o.ID, o.Err)
		}
	}
	return "", "", ""
}

func firstLines(s string, n int) string {
	lines := strings.Split(s, "\n")
	var out []string
	for _, l := range lines {
		if strings.TrimSpace(l) == "" {
			continue
		}
		out = append(out, l)
		if len(out) >= n {
			break
		}
	}
	return strings.Join(out, " | ")
}

// outcomeSig summarises what a write op produced, for equality checks.
func outcomeSig(o *OpResult) string {
	if o == nil {
		return "<missing>"
	}
	if o.Status != "ok" {
		return o.Status + ":" + o.Frame
	}
	return fmt.Sprintf("ok:%s:%d", o.Trace, o.NPages)
}

// firstTraceDiff re-runs two specs with trace dumps and returns a description of
// the first differing backend call of the given write op.
func (c *Ctx) firstTraceDiff(a, b *Spec, taskA, taskB int, opA, opB string) string {
	dir, err := mkScratch("diff")
	if err != nil {
		return "(no scratch dir for diff)"
	}
	defer rmScratch(dir)
	a2, b2 := cloneSpec(a), cloneSpec(b)
	a2.ID, b2.ID = "A", "B"
	a2.Dump, b2.Dump = dir, dir
	c.Pool.Run([]*Spec{a2, b2}, nil)
	la := readLines(fmt.Sprintf("%s/A.t%d.%s.trace", dir, taskA, opA))
	lb := readLines(fmt.Sprintf("%s/B.t%d.%s.trace", dir, taskB, opB))
	for i := 0; i < len(la) || i < len(lb); i++ {
		var x, y string
		if i < len(la) {
			x = la[i]
		} else {
			x = "<end of trace>"
		}
		if i < len(lb) {
			y = lb[i]
		} else {
			y = "<end of trace>"
		}
		if x != y {
			return fmt.Sprintf("first differing backend call #%d: %s  VS  %s", i, clip(x, 260), clip(y, 260))
		}
	}
	return "(traces equal on re-run)"
}

func callKind(diff string) string {
	// "first differing backend call #N: Kind ..."
	i := strings.Index(diff, ": ")
	if i < 0 {
		return "?"
	}
	rest := diff[i+2:]
	if j := strings.IndexAny(rest, " "); j > 0 {
		return rest[:j]
	}
	return rest
}

func sortedKeys(m map[string]bool) []string {
	var out []string
	for k := range m {
		out = append(out, k)
	}
	sort.Strings(out)
	return out
}
