module verifsupervisor

go 1.23
