package main

import (
	"bufio"
	"errors"
	"bytes"
	"encoding/json"
	"fmt"
	"io"
	"os"
	"os/exec"
	"strconv"
	"strings"
	"sync"
	"sync/atomic"
	"time"
)

// Pool runs specs on worker processes. Each worker executes one spec at a time; a
// worker that dies (fatal runtime error) or stalls (watchdog) is replaced and the
// in-flight spec gets a Fatal result.
type Pool struct {
	bin     string
	args    []string
	env     []string
	n       int
	timeout time.Duration
	dir     string // working directory of the workers ("" = inherited)
	Runs    int64
	Deaths  int64
}

type workerProc struct {
	cmd    *exec.Cmd
	in     io.WriteCloser
	out    *bufio.Reader
	stderr *tailBuf
	runs   int
}

type tailBuf struct {
	mu  sync.Mutex
	buf []byte
}

func (t *tailBuf) Write(p []byte) (int, error) {
	t.mu.Lock()
	t.buf = append(t.buf, p...)
	if len(t.buf) > 1<<17 {
		t.buf = t.buf[len(t.buf)-(1<<16):]
	}
	t.mu.Unlock()
	return len(p), nil
}

func (t *tailBuf) String() string {
	t.mu.Lock()
	defer t.mu.Unlock()
	return string(t.buf)
}

var errStalled = errors.New("stalled")

// A simulated run that goes half its wall-clock limit without a single step (function entry
// of the instrumented library) is declared blocked (runOn).

func NewPool(bin string, args []string, env []string, n int, timeout time.Duration) *Pool {
	return &Pool{bin: bin, args: args, env: env, n: n, timeout: timeout}
}

func (p *Pool) start() (*workerProc, error) {
	cmd := exec.Command(p.bin, p.args...)
	cmd.Env = append(os.Environ(), p.env...)
	cmd.Dir = p.dir
	in, err := cmd.StdinPipe()
	if err != nil {
		return nil, err
	}
	out, err := cmd.StdoutPipe()
	if err != nil {
		return nil, err
	}
	tb := &tailBuf{}
	cmd.Stderr = tb
	if err := cmd.Start(); err != nil {
		return nil, err
	}
	return &workerProc{cmd: cmd, in: in, out: bufio.NewReaderSize(out, 1<<20), stderr: tb}, nil
}

func (w *workerProc) kill() {
	if w == nil || w.cmd == nil {
		return
	}
	w.in.Close()
	w.cmd.Process.Kill()
	w.cmd.Wait()
}

func classifyFatal(stderr string) string {
	switch {
	case strings.Contains(stderr, "WARNING: DATA RACE"):
		return "data-race"
	case strings.Contains(stderr, "stack overflow") || strings.Contains(stderr, "goroutine stack exceeds"):
		return "stack-overflow"
	case strings.Contains(stderr, "concurrent map"):
		return "concurrent-map"
	case strings.Contains(stderr, "all goroutines are asleep"):
		return "deadlock"
	case strings.Contains(stderr, "out of memory"):
		return "out-of-memory"
	}
	return "crash"
}

// fatalFrame extracts the webrender call site of a fatal stderr dump: the first
// webrender frame, or for a stack overflow (where the top frame is whichever function
// of the recursion cycle happened to run out of stack) the lexicographically smallest
// frame among the first 40, which is stable for a given cycle.
func fatalFrame(stderr string) string {
	if strings.Contains(stderr, "stack overflow") || strings.Contains(stderr, "goroutine stack exceeds") {
		best := ""
		rest := stderr
		for i := 0; i < 40; i++ {
			f, tail := nextFrame(rest)
			if f == "" {
				break
			}
			if best == "" || f < best {
				best = f
			}
			rest = tail
		}
		return best
	}
	f, _ := nextFrame(stderr)
	return f
}

// nextFrame returns the first webrender frame of s and the text after it.
func nextFrame(s string) (string, string) {
	lines := strings.Split(s, "\n")
	for i := 0; i+1 < len(lines); i++ {
		l := strings.TrimSpace(lines[i])
		if !strings.HasPrefix(l, "github.com/benoitkugler/webrender/") || strings.Contains(l, "/verifsim/") {
			continue
		}
		fn := l
		if j := strings.LastIndex(fn, "("); j > 0 {
			fn = fn[:j]
		}
		file := strings.TrimSpace(lines[i+1])
		if j := strings.Index(file, "/webrender/"); j >= 0 {
			file = file[j+len("/webrender/"):]
		}
		if j := strings.Index(file, ":"); j >= 0 {
			file = file[:j]
		}
		if j := strings.LastIndex(fn, "/"); j >= 0 {
			fn = fn[j+1:]
		}
		if j := strings.Index(fn, "."); j >= 0 {
			fn = fn[j+1:]
		}
		if !strings.HasSuffix(file, ".go") {
			continue // a line cut by clipping
		}
		return file + "#" + fn, strings.Join(lines[i+2:], "\n")
	}
	return "", ""
}

// runOn executes one spec on w; ok=false means the worker must be replaced.
func (p *Pool) runOn(w *workerProc, spec *Spec, limit time.Duration) (res *Result, ok bool) {
	stall := limit / 2
	atomic.AddInt64(&p.Runs, 1)
	start := time.Now()
	b, _ := json.Marshal(spec)
	b = append(b, '\n')
	type rd struct {
		res *Result
		err error
	}
	ch := make(chan rd, 1)
	go func() {
		if _, err := w.in.Write(b); err != nil {
			ch <- rd{nil, err}
			return
		}
		var lastSteps uint64
		same := 0
		for {
			line, err := w.out.ReadBytes('\n')
			if bytes.HasPrefix(line, []byte("HB ")) {
				// heartbeat (one per second of the worker's wall clock): a simulated run whose
				// step counter does not move any more is blocked
				st, _ := strconv.ParseUint(strings.TrimSpace(string(line[3:])), 10, 64)
				if st == lastSteps && st > 0 {
					same++
				} else {
					same = 0
				}
				lastSteps = st
				if time.Duration(same)*time.Second >= stall {
					ch <- rd{nil, errStalled}
					return
				}
				continue
			}
			if bytes.HasPrefix(line, []byte("RESULT ")) {
				var r Result
				if jerr := json.Unmarshal(line[7:], &r); jerr != nil {
					ch <- rd{nil, fmt.Errorf("bad result json: %v", jerr)}
					return
				}
				ch <- rd{&r, nil}
				return
			}
			if bytes.HasPrefix(line, []byte("BADSPEC")) {
				ch <- rd{nil, fmt.Errorf("worker: %s", line)}
				return
			}
			if err != nil {
				ch <- rd{nil, err}
				return
			}
		}
	}()
	select {
	case r := <-ch:
		if r.err == nil {
			r.res.WallMs = float64(time.Since(start).Microseconds()) / 1000
			return r.res, true
		}
		if r.err == errStalled {
			atomic.AddInt64(&p.Deaths, 1)
			w.cmd.Process.Signal(os.Interrupt)
			w.kill()
			out := &Result{ID: spec.ID, Fatal: fmt.Sprintf("stalled: no simulated step for %v (blocked outside the simulator's seams)", stall), FatalClass: "timeout"}
			out.Stderr = clip(w.stderr.String(), 4000)
			out.WallMs = float64(time.Since(start).Microseconds()) / 1000
			return out, false
		}
		// process died
		atomic.AddInt64(&p.Deaths, 1)
		w.cmd.Wait()
		se := w.stderr.String()
		out := &Result{ID: spec.ID, Fatal: "worker died: " + r.err.Error(), FatalClass: classifyFatal(se)}
		out.Stderr = clip(se, 12000)
		out.WallMs = float64(time.Since(start).Microseconds()) / 1000
		return out, false
	case <-time.After(limit):
		atomic.AddInt64(&p.Deaths, 1)
		w.cmd.Process.Signal(os.Interrupt)
		w.kill()
		out := &Result{ID: spec.ID, Fatal: "watchdog timeout", FatalClass: "timeout"}
		out.Stderr = clip(w.stderr.String(), 4000)
		out.WallMs = float64(time.Since(start).Microseconds()) / 1000
		return out, false
	}
}

func clip(s string, n int) string {
	if len(s) <= n {
		return s
	}
	// keep head (fatal message) and some tail, cut at line boundaries
	head, tail := s[:n*3/4], s[len(s)-n/4:]
	if i := strings.LastIndex(head, "\n"); i > 0 {
		head = head[:i]
	}
	if i := strings.Index(tail, "\n"); i >= 0 {
		tail = tail[i+1:]
	}
	return head + "\n...\n" + tail
}

// Run executes all specs on up to p.n workers; results are returned in spec order.
// progress (optional) is called after each finished run.
func (p *Pool) Run(specs []*Spec, progress func(done int)) []*Result {
	results := make([]*Result, len(specs))
	var next int64 = -1
	var done int64
	var timeouts int64
	var wg sync.WaitGroup
	n := p.n
	if n > len(specs) {
		n = len(specs)
	}
	for i := 0; i < n; i++ {
		wg.Add(1)
		go func() {
			defer wg.Done()
			var w *workerProc
			defer func() { w.kill() }()
			for {
				j := int(atomic.AddInt64(&next, 1))
				if j >= len(specs) {
					return
				}
				if specs[j].Fresh && w != nil && w.runs > 0 {
					w.kill()
					w = nil
				}
				if w == nil || w.runs >= 400 {
					w.kill()
					var err error
					w, err = p.start()
					if err != nil {
						results[j] = &Result{ID: specs[j].ID, Fatal: "cannot start worker: " + err.Error(), FatalClass: "infra"}
						w = nil
						continue
					}
				}
				// once many runs of this batch have hit the wall-clock limit (which never happens
				// on a tree where the property holds), the batch already carries its verdict: the
				// remaining runs get a fifth of the limit, so that a change that blocks every run
				// costs minutes, not hours
				limit := p.timeout
				if atomic.LoadInt64(&timeouts) >= 8 {
					limit = p.timeout / 5
				}
				res, ok := p.runOn(w, specs[j], limit)
				if res != nil && res.FatalClass == "timeout" {
					atomic.AddInt64(&timeouts, 1)
				}
				w.runs++
				results[j] = res
				if !ok || specs[j].Fresh {
					w.kill()
					w = nil
				}
				d := int(atomic.AddInt64(&done, 1))
				if progress != nil {
					progress(d)
				}
			}
		}()
	}
	wg.Wait()
	return results
}

// RunFresh executes one spec in a brand-new worker process. It is the confirmation
// path of watchdog verdicts, so it gets three times the pool's per-run wall-clock limit.
func (p *Pool) RunFresh(spec *Spec) *Result {
	p2 := p
	if len(spec.Env) > 0 {
		q := *p
		q.env = append(append([]string{}, p.env...), spec.Env...)
		q.dir = "/"
		p2 = &q
	}
	w, err := p2.start()
	if err != nil {
		return &Result{ID: spec.ID, Fatal: "cannot start worker: " + err.Error(), FatalClass: "infra"}
	}
	defer w.kill()
	res, _ := p2.runOn(w, spec, 3*p.timeout)
	atomic.AddInt64(&p.Runs, 1)
	return res
}
