package main

// Oracles over what a run drew, evaluated against the scenario's expectations.
// Everything expected comes from the scenario file (how the document was built),
// nothing from the implementation.

import (
	"sync"
	"fmt"
	"math"
	"regexp"
	"sort"
	"strconv"
	"strings"
)

var (
	reProbe  = regexp.MustCompile(`^np(\d+)$`)
	reMargin = regexp.MustCompile(`^pg(\d+)of(\d+)$`)
)

// Issue is one oracle failure (before it becomes a Finding).
type Issue struct {
	Class  string // e.g. words:lost
	Where  string // short stable locator (flow name, rule, ...)
	Detail string
}

func isProbe(w string) bool  { return reProbe.MatchString(w) }
var reMarginAny = regexp.MustCompile(`^(pg|tl|tc|nx|bl|br)\d+(of\d+)?$`)

func isMargin(w string) bool { return reMarginAny.MatchString(w) }

type wordIndex struct {
	flowOf map[string]string
	posIn  map[string]int
	repeat map[string]bool
	faultW map[string]bool
}

func indexWords(e *Expect) *wordIndex {
	wi := &wordIndex{flowOf: map[string]string{}, posIn: map[string]int{}, repeat: map[string]bool{}, faultW: map[string]bool{}}
	for f, ws := range e.Flows {
		for i, w := range ws {
			wi.flowOf[w] = f
			wi.posIn[w] = i
		}
	}
	for _, w := range e.Repeat {
		wi.repeat[w] = true
		delete(wi.flowOf, w)
	}
	for _, ws := range e.FaultWords {
		for _, w := range ws {
			wi.faultW[w] = true
		}
	}
	return wi
}

// rejoinFirstLetters undoes the visual split of ::first-letter: a drawn fragment f that is
// not a word of the document while "<letter>f" is one, consumes one stand-alone <letter>
// drawn on the same page. Letters or fragments left over stay as they are (and are then
// reported as alien / lost by the caller).
func rejoinFirstLetters(w *OpResult, wi *wordIndex) *OpResult {
	out := *w
	out.PageWords = make([][]string, len(w.PageWords))
	for p, ws := range w.PageWords {
		letters := map[string]int{}
		for _, x := range ws {
			if len([]rune(x)) == 1 {
				letters[x]++
			}
		}
		var res []string
		used := map[string]int{}
		for _, x := range ws {
			if _, known := wi.flowOf[x]; known || len([]rune(x)) == 1 {
				res = append(res, x)
				continue
			}
			joined := false
			for l, n := range letters {
				if n-used[l] > 0 {
					if _, ok := wi.flowOf[l+x]; ok {
						used[l]++
						res = append(res, l+x)
						joined = true
						break
					}
				}
			}
			if !joined {
				res = append(res, x)
			}
		}
		// drop the stand-alone letters that were consumed
		var fin []string
		for _, x := range res {
			if len([]rune(x)) == 1 && used[x] > 0 {
				used[x]--
				continue
			}
			fin = append(fin, x)
		}
		out.PageWords[p] = fin
	}
	return &out
}

// checkConservation: C02 on the drawn words of one write.
func checkConservation(sc *Scenario, w *OpResult) []Issue {
	e := &sc.Expect
	if !e.Conserve || w == nil || w.Status != "ok" {
		return nil
	}
	wi := indexWords(e)
	if e.FirstLetter {
		w = rejoinFirstLetters(w, wi)
	}
	var out []Issue
	count := map[string]int{}
	type pos struct{ page, idx int }
	first := map[string]pos{}
	for p, ws := range w.PageWords {
		seenOnPage := map[string]int{}
		for i, x := range ws {
			count[x]++
			seenOnPage[x]++
			if _, ok := first[x]; !ok {
				first[x] = pos{p, i}
			}
			if _, known := wi.flowOf[x]; !known && !wi.repeat[x] && !isProbe(x) && !isMargin(x) && !wi.faultW[x] {
				out = append(out, Issue{"words:alien", "alien", fmt.Sprintf("word %q drawn on page %d is not part of the document text", x, p)})
			}
		}
	}
	var flows []string
	for f := range e.Flows {
		flows = append(flows, f)
	}
	sort.Strings(flows)
	for _, f := range flows {
		var lost, dup []string
		prev := pos{-1, -1}
		prevW := ""
		reordered := ""
		for _, x := range e.Flows[f] {
			if wi.repeat[x] {
				continue
			}
			switch n := count[x]; {
			case n == 0:
				lost = append(lost, x)
				continue
			case n > 1:
				dup = append(dup, x)
			}
			p := first[x]
			if reordered == "" && (p.page < prev.page || (p.page == prev.page && p.idx < prev.idx)) {
				reordered = fmt.Sprintf("%q (page %d, #%d) is drawn before %q (page %d, #%d)", x, p.page, p.idx, prevW, prev.page, prev.idx)
			}
			prev, prevW = p, x
		}
		kind := strings.TrimRight(f, "0123456789_")
		clause("C02 words of flow kind "+kind+" (once, in order)", len(e.Flows[f]))
		if len(lost) > 0 {
			out = append(out, Issue{"words:lost", kind, fmt.Sprintf("flow %s: %d words never drawn: %s", f, len(lost), clipList(lost))})
		}
		if len(dup) > 0 {
			out = append(out, Issue{"words:duplicated", kind, fmt.Sprintf("flow %s: %d words drawn more than once: %s", f, len(dup), clipList(dup))})
		}
		if reordered != "" {
			out = append(out, Issue{"words:reordered", kind, fmt.Sprintf("flow %s: %s", f, reordered)})
		}
	}
	if e.RepeatOncePerPage {
		for p, ws := range w.PageWords {
			n := map[string]int{}
			for _, x := range ws {
				if wi.repeat[x] {
					n[x]++
				}
			}
			for _, x := range e.Repeat {
				clause("C02 fixed-position text exactly once per page", 1)
				if n[x] != 1 {
					out = append(out, Issue{"words:duplicated", "fixed", fmt.Sprintf("fixed-position text %q is drawn %d times on page %d (CSS repeats it once per page)", x, n[x], p+1)})
				}
			}
		}
	}
	clause("C02 CSS-defined repeating words drawn", len(wi.repeat))
	for x := range wi.repeat {
		if count[x] == 0 {
			out = append(out, Issue{"words:lost", "repeat", fmt.Sprintf("repeating word %q never drawn", x)})
		}
	}
	return dedupeIssues(out)
}

func clipList(ws []string) string {
	if len(ws) > 8 {
		return strings.Join(ws[:8], " ") + fmt.Sprintf(" … (+%d)", len(ws)-8)
	}
	return strings.Join(ws, " ")
}

func dedupeIssues(in []Issue) []Issue {
	seen := map[string]bool{}
	var out []Issue
	for _, i := range in {
		k := i.Class + "|" + i.Where
		if seen[k] {
			continue
		}
		seen[k] = true
		out = append(out, i)
	}
	return out
}

// checkLayoutVsDrawn: each laid-out text run reaches the backend once, on its page.
func checkLayoutVsDrawn(l, w *OpResult) []Issue {
	if l == nil || w == nil || l.Status != "ok" || w.Status != "ok" {
		return nil
	}
	if len(l.LayoutWords) != len(w.PageWords) {
		return []Issue{{"words:layout-vs-drawn", "pages", fmt.Sprintf("layout has %d pages, %d were drawn", len(l.LayoutWords), len(w.PageWords))}}
	}
	for p := range l.LayoutWords {
		a := append([]string{}, l.LayoutWords[p]...)
		b := append([]string{}, w.PageWords[p]...)
		sort.Strings(a)
		sort.Strings(b)
		if strings.Join(a, " ") != strings.Join(b, " ") {
			return []Issue{{"words:layout-vs-drawn", "page", fmt.Sprintf("page %d: words of the laid-out TextBoxes differ from the words drawn: layout-only=%s drawn-only=%s", p, clipList(diffMulti(a, b)), clipList(diffMulti(b, a)))}}
		}
	}
	return nil
}

func diffMulti(a, b []string) []string {
	cnt := map[string]int{}
	for _, x := range b {
		cnt[x]++
	}
	var out []string
	for _, x := range a {
		if cnt[x] > 0 {
			cnt[x]--
		} else {
			out = append(out, x)
		}
	}
	return out
}

// maskProbes returns per-page words with probe and margin words normalised.
func maskedPages(w *OpResult) []string {
	var out []string
	for _, ws := range w.PageWords {
		var m []string
		for _, x := range ws {
			switch {
			case isProbe(x):
				m = append(m, "np#")
			case isMargin(x):
				m = append(m, "pg#")
			default:
				m = append(m, x)
			}
		}
		out = append(out, strings.Join(m, " "))
	}
	return out
}

// checkRestartEquivalence: the run with active probes must put the same words on
// the same pages as its restart-free twin (Ahem: identical geometry).
func checkRestartEquivalence(twin, w *OpResult) []Issue {
	if twin == nil || w == nil || twin.Status != "ok" || w.Status != "ok" {
		return nil
	}
	a, b := maskedPages(twin), maskedPages(w)
	if len(a) != len(b) {
		return []Issue{{"restart:pages-differ", "page-count", fmt.Sprintf("restart-free twin has %d pages, the run with restarts has %d", len(a), len(b))}}
	}
	for p := range a {
		if a[p] != b[p] {
			ta, tb := strings.Fields(a[p]), strings.Fields(b[p])
			return []Issue{{"restart:pages-differ", "page-content", fmt.Sprintf("page %d differs from the restart-free twin: twin-only=%s restart-only=%s", p, clipList(diffMulti(ta, tb)), clipList(diffMulti(tb, ta)))}}
		}
	}
	return nil
}

// ---- C12

// clauseChecks counts how often each oracle clause was actually evaluated on a
// concrete object (a page, a paragraph, a link ...): a clause stuck at zero is a blind oracle.
var clauseChecks = struct {
	sync.Mutex
	m map[string]int
}{m: map[string]int{}}

func clause(name string, n int) {
	if n <= 0 {
		return
	}
	clauseChecks.Lock()
	clauseChecks.m[name] += n
	clauseChecks.Unlock()
}

func approx(a, b float64) bool { return math.Abs(a-b) < 0.01 }

func checkPages(sc *Scenario, w, l *OpResult, active []int) []Issue {
	e := &sc.Expect
	if w == nil || w.Status != "ok" {
		return nil
	}
	var out []Issue
	n := len(w.PageWords)
	wi := indexWords(e)
	// first main-flow word and page of every word
	firstMain := make([]string, n)
	hasContent := make([]bool, n) // anything but margin-box / repeating words
	pageOf := map[string]int{}
	for p, ws := range w.PageWords {
		for _, x := range ws {
			if !isMargin(x) && !wi.repeat[x] {
				hasContent[p] = true
			}
			if _, ok := pageOf[x]; !ok {
				pageOf[x] = p
			}
			if firstMain[p] == "" && wi.flowOf[x] == "main" {
				firstMain[p] = x
			}
		}
	}
	// page counters in margin boxes
	if e.Margin {
		for p, ws := range w.PageWords {
			found := 0
			for _, x := range ws {
				m := reMargin.FindStringSubmatch(x)
				if m == nil {
					continue
				}
				found++
				clause("C12 counter(page)/counter(pages) in a margin box", 1)
				pp, _ := strconv.Atoi(m[1])
				nn, _ := strconv.Atoi(m[2])
				if pp != p+1 {
					out = append(out, Issue{"counter:page", "margin-box", fmt.Sprintf("page %d shows counter(page)=%d", p+1, pp)})
				}
				if nn != n {
					out = append(out, Issue{"counter:pages", "margin-box", fmt.Sprintf("page %d shows counter(pages)=%d but %d pages were emitted", p+1, nn, n)})
				}
			}
			if found != 1 {
				out = append(out, Issue{"counter:margin-box-count", "margin-box", fmt.Sprintf("page %d has %d page-counter margin boxes, expected 1", p+1, found)})
			}
		}
	}
	// margin boxes that manipulate counters (pag-27): each box sees the page counters, and
	// the increments / resets of one box are not seen by its siblings
	if e.MarginCounters {
		for p, ws := range w.PageWords {
			have := map[string]bool{}
			for _, x := range ws {
				have[x] = true
			}
			clause("C12 margin boxes with their own counter state (page)", 1)
			for _, want := range []string{fmt.Sprintf("tl%d", p+1), fmt.Sprintf("tc%dof%d", p+1, n), fmt.Sprintf("nx%d", p+2), "bl7", fmt.Sprintf("br0%d", p+1)} {
				if !have[want] {
					out = append(out, Issue{"counter:margin-box", want[:2], fmt.Sprintf("page %d: margin box text %q expected (each margin box has its own copy of the page counters)", p+1, want)})
				}
			}
		}
	}
	// in-flow probes
	if e.Probes > 0 {
		nProbe := 0
		nActive := 0
		for _, ws := range w.PageWords {
			for _, x := range ws {
				m := reProbe.FindStringSubmatch(x)
				if m == nil {
					continue
				}
				nProbe++
				v, _ := strconv.Atoi(m[1])
				lit := e.ProbeLiteral
				if lit == 0 {
					lit = 9
				}
				if v == lit && n != lit {
					continue // inactive literal
				}
				nActive++
				clause("C12 in-flow counter(pages) probe, active", 1)
				if v != n {
					out = append(out, Issue{"counter:pages", "in-flow-probe", fmt.Sprintf("in-flow counter(pages) shows %d but %d pages were emitted", v, n)})
				}
			}
		}
		if e.Conserve && nProbe != e.Probes {
			out = append(out, Issue{"counter:probe-count", "in-flow-probe", fmt.Sprintf("%d probe texts drawn, document has %d", nProbe, e.Probes)})
		}
		if lit := e.ProbeLiteral; n != 9 && n != lit && nActive != len(active) {
			out = append(out, Issue{"counter:pages", "in-flow-probe-stale", fmt.Sprintf("%d probes are active but %d show a page total (the others still show the literal)", len(active), nActive)})
		}
	}
	// page sizes
	if e.PageW > 0 {
		for p, pg := range w.Pages {
			wantW, wantH := e.PageW, e.PageH
			kind := "default"
			if p == 0 {
				if s, ok := e.PageSizes["first"]; ok {
					wantW, wantH, kind = s[0], s[1], "first"
				}
			}
			if !hasContent[p] && p > 0 && p < n-1 {
				if s, ok := e.PageSizes["blank"]; ok && e.Geometry {
					wantW, wantH, kind = s[0], s[1], "blank"
				}
			} else if name, ok := e.NamedOf[firstMain[p]]; ok {
				if s, ok := e.PageSizes[name]; ok {
					wantW, wantH, kind = s[0], s[1], name
				}
			}
			clause("C12 AddPage size vs @page ("+map[bool]string{true: "default", false: "first/blank/named"}[kind == "default"]+")", 1)
			if !approx(pg.Width, wantW) || !approx(pg.Height, wantH) {
				out = append(out, Issue{"page:size", kind, fmt.Sprintf("page %d (%s) was added with size %gx%g, @page says %gx%g", p+1, kind, pg.Width, pg.Height, wantW, wantH)})
			}
		}
	}
	// forced breaks
	for _, fb := range e.Forced {
		p, ok := pageOf[fb.Word]
		if !ok {
			continue // conservation reports it
		}
		clause("C12 forced break starts a page ("+fb.Side+")", 1)
		if firstMain[p] != fb.Word {
			out = append(out, Issue{"break:forced-not-at-top", fb.Side, fmt.Sprintf("block starting with %q carries a forced break but page %d starts with %q", fb.Word, p+1, firstMain[p])})
		}
		switch fb.Side {
		case "right":
			if p%2 != 0 {
				out = append(out, Issue{"break:side", "right", fmt.Sprintf("block %q must start a right page, is on page %d", fb.Word, p+1)})
			}
		case "left":
			if p%2 != 1 {
				out = append(out, Issue{"break:side", "left", fmt.Sprintf("block %q must start a left page, is on page %d", fb.Word, p+1)})
			}
		}
	}
	// orphans / widows: a paragraph split over pages leaves >= orphans lines before and
	// >= widows lines after each break (a conforming break exists: the paragraphs of these
	// scenarios are much shorter than a page)
	if len(e.Paras) > 0 && len(w.PageLines) == n && e.Orphans > 0 {
		lineOf := map[string][2]int{} // word -> (page, line index on page)
		for p, ls := range w.PageLines {
			for li, l := range ls {
				for _, x := range l.Words {
					if _, ok := lineOf[x]; !ok {
						lineOf[x] = [2]int{p, li}
					}
				}
			}
		}
		for _, para := range e.Paras {
			perPage := map[int]map[int]bool{}
			var pages []int
			for _, x := range para {
				pl, ok := lineOf[x]
				if !ok {
					continue
				}
				if perPage[pl[0]] == nil {
					perPage[pl[0]] = map[int]bool{}
					pages = append(pages, pl[0])
				}
				perPage[pl[0]][pl[1]] = true
			}
			if len(pages) < 2 {
				continue
			}
			sort.Ints(pages)
			clause("C12 orphans/widows of a paragraph split over pages", 1)
			total := 0
			for _, pg := range pages {
				total += len(perPage[pg])
			}
			if total < e.Orphans+e.Widows {
				out = append(out, Issue{"break:orphans-widows", "unsplittable-split", fmt.Sprintf("paragraph starting with %q has %d lines (< orphans %d + widows %d) but is split over pages %v", para[0], total, e.Orphans, e.Widows, pages)})
				continue
			}
			if len(perPage[pages[0]]) < e.Orphans {
				out = append(out, Issue{"break:orphans-widows", "orphans", fmt.Sprintf("paragraph starting with %q leaves %d line(s) at the bottom of page %d, orphans is %d", para[0], len(perPage[pages[0]]), pages[0]+1, e.Orphans)})
			}
			last := pages[len(pages)-1]
			if len(perPage[last]) < e.Widows {
				out = append(out, Issue{"break:orphans-widows", "widows", fmt.Sprintf("paragraph starting with %q leaves %d line(s) at the top of page %d, widows is %d", para[0], len(perPage[last]), last+1, e.Widows)})
			}
		}
	}
	for _, grp := range e.KeepTogether {
		pgs := map[int]bool{}
		for _, x := range grp {
			if p, ok := pageOf[x]; ok {
				pgs[p] = true
			}
		}
		clause("C12 break-inside: avoid box", 1)
		if len(pgs) > 1 {
			out = append(out, Issue{"break:avoid-inside", "break-inside", fmt.Sprintf("box starting with %q has break-inside: avoid and fits a page, but is split over %d pages", grp[0], len(pgs))})
		}
	}
	for _, kw := range e.KeepWithNext {
		pa, oka := pageOf[kw[0]]
		pb, okb := pageOf[kw[1]]
		if oka && okb {
			clause("C12 break-after: avoid pair", 1)
		}
		if oka && okb && pa != pb {
			out = append(out, Issue{"break:avoid-after", "break-after", fmt.Sprintf("%q has break-after: avoid but the next box (%q) starts on page %d instead of %d", kw[0], kw[1], pb+1, pa+1)})
		}
	}
	for _, sp := range e.SamePage {
		pa, oka := pageOf[sp[0]]
		pb, okb := pageOf[sp[1]]
		if oka && okb {
			clause("C12 next unit fits on the page (pair)", 1)
			if pa != pb {
				out = append(out, Issue{"page:underfull", "next-unit-fits", fmt.Sprintf("%q is on page %d although it fits after %q on page %d: the page ends before its content box is full", sp[1], pb+1, sp[0], pa+1)})
			}
		}
	}
	// reference model for fixed-height blocks: the page of every marker word
	if len(e.WordPage) > 0 {
		var ks []string
		for k := range e.WordPage {
			ks = append(ks, k)
		}
		sort.Strings(ks)
		for _, k := range ks {
			if _, ok := pageOf[k]; ok {
				clause("C12 block page vs greedy placement model", 1)
			}
			if got, ok := pageOf[k]; ok && got != e.WordPage[k] {
				out = append(out, Issue{"page:placement", "fixed-height-blocks", fmt.Sprintf("block %q is on page %d, the greedy model of fixed-height blocks puts it on page %d (a page ended early or late)", k, got+1, e.WordPage[k]+1)})
				break
			}
		}
	}
	// in-flow blocks stay above the footnote area / inside the content box
	if l != nil && l.Status == "ok" && e.BlocksFit {
		for p, g := range l.PageGeom {
			limit := g.ContentBottom
			if g.FootnoteTop > 0 && g.FootnoteTop < limit {
				limit = g.FootnoteTop
			}
			clause("C12 blocks above content bottom / footnote area (page)", 1)
			if g.FootnoteTop > 0 && g.FootnoteTop < g.ContentBottom {
				clause("C12 blocks above a non-empty footnote area (page)", 1)
			}
			if g.MaxBlockBottom > limit+0.01 {
				out = append(out, Issue{"page:overflow", "block-below-limit", fmt.Sprintf("page %d: an in-flow block ends at y=%g, below the limit y=%g (content box bottom / footnote area top)", p+1, g.MaxBlockBottom, limit)})
			}
		}
	}
	// page margins by side / first / blank (from the laid-out page boxes)
	if l != nil && l.Status == "ok" && len(e.PageMargins) > 0 && len(l.PageGeom) == n {
		for p, g := range l.PageGeom {
			side := "right"
			if p%2 == 1 {
				side = "left"
			}
			kind := side
			if !hasContent[p] && p > 0 && p < n-1 {
				kind = "blank-" + side
			} else if p == 0 {
				kind = "first"
			}
			want, ok := e.PageMargins[kind]
			if !ok {
				continue
			}
			clause("C12 page margins by kind ("+strings.SplitN(kind, "-", 2)[0]+")", 1)
			got := [4]float64{g.MT, g.MR, g.MB, g.ML}
			for i := range want {
				if !approx(got[i], want[i]) {
					out = append(out, Issue{"page:margins", kind, fmt.Sprintf("page %d (%s) has margins %v (top right bottom left), the matching @page rules give %v", p+1, kind, got, want)})
					break
				}
			}
		}
	}
	// @page :nth(an+b) rules: margins of page i = base overridden by every matching rule, in order
	if l != nil && l.Status == "ok" && len(e.PageMarginsNth) > 0 && len(l.PageGeom) == n {
		for p, g := range l.PageGeom {
			want := e.PageMarginsBase
			var matched []string
			for _, r := range e.PageMarginsNth {
				if r.matches(p + 1) {
					want[r.Side] = r.Value
					matched = append(matched, fmt.Sprintf(":nth(%dn%+d)", r.A, r.B))
				}
			}
			clause("C12 page margins from @page :nth(an+b) rules (page)", 1)
			got := [4]float64{g.MT, g.MR, g.MB, g.ML}
			for i := range want {
				if !approx(got[i], want[i]) {
					out = append(out, Issue{"page:margins", "nth", fmt.Sprintf("page %d has margins %v (top right bottom left); the @page rules matching it (%s) give %v", p+1, got, strings.Join(matched, " "), want)})
					break
				}
			}
		}
	}
	// a page ending in the middle of a paragraph is filled to the last line that fits
	if l != nil && l.Status == "ok" && e.FillPages && len(e.Paras) > 0 && len(w.PageLines) == n && len(l.PageGeom) == n {
		paraOf := map[string]int{}
		for i, para := range e.Paras {
			for _, x := range para {
				paraOf[x] = i
			}
		}
		lastPara := func(p int) int { // paragraph of the last main-flow line of page p
			for li := len(w.PageLines[p]) - 1; li >= 0; li-- {
				for _, x := range w.PageLines[p][li].Words {
					if i, ok := paraOf[x]; ok {
						return i
					}
				}
			}
			return -1
		}
		firstPara := func(p int) int {
			for _, ln := range w.PageLines[p] {
				for _, x := range ln.Words {
					if i, ok := paraOf[x]; ok {
						return i
					}
				}
			}
			return -2
		}
		for p := 0; p+1 < n; p++ {
			if lastPara(p) >= 0 && lastPara(p) == firstPara(p+1) {
				clause("C12 page ending mid-paragraph is full", 1)
				g := l.PageGeom[p]
				if left := g.ContentBottom - g.MaxLineBottom; left >= e.LineHeight-0.01 {
					out = append(out, Issue{"page:underfull", "mid-paragraph", fmt.Sprintf("page %d ends in the middle of a paragraph with %gpx unused, although one more %gpx line fits", p+1, left, e.LineHeight)})
				}
			}
		}
	}
	// geometry from the laid-out tree
	if l != nil && l.Status == "ok" && e.Geometry {
		for p, g := range l.PageGeom {
			if e.FitsPage {
				clause("C12 lines inside the content box (page)", 1)
			}
			if e.Plain && p < len(l.PageGeom)-1 && g.MaxLineBottom > 0 {
				clause("C12 plain page is full", 1)
			}
			if e.FitsPage && g.MaxLineBottom > g.ContentBottom+0.01 {
				out = append(out, Issue{"page:overflow", "line-below-content-box", fmt.Sprintf("page %d: a main-flow line ends at y=%g, below the page content box (%g)", p+1, g.MaxLineBottom, g.ContentBottom)})
			}
			if e.Plain && p < len(l.PageGeom)-1 && g.MaxLineBottom > 0 {
				if left := g.ContentBottom - g.MaxLineBottom; left >= 2*e.LineHeight {
					out = append(out, Issue{"page:underfull", "plain", fmt.Sprintf("page %d ends with %gpx unused although the next line (and paragraph margin) needs at most %gpx", p+1, left, 2*e.LineHeight)})
				}
			}
		}
	}
	return dedupeIssues(out)
}

// ---- C14: monitor + link / bookmark / metadata consistency

func checkBackendProtocol(sc *Scenario, w *OpResult) []Issue {
	if w == nil || w.Status != "ok" {
		return nil
	}
	var out []Issue
	clause("C14 backend calls seen by the protocol monitor", w.Calls)
	for _, v := range w.Violations {
		where := v.Frame
		if where == "" {
			where = v.Rule
		}
		out = append(out, Issue{"monitor:" + v.Rule, where, v.Detail})
	}
	e := &sc.Expect
	pageOf := map[string]int{}
	for p, ws := range w.PageWords {
		for _, x := range ws {
			if _, ok := pageOf[x]; !ok {
				pageOf[x] = p
			}
		}
	}
	anchorPage := map[string]int{}
	for p, names := range w.Anchors {
		for _, n := range names {
			if _, dup := anchorPage[n]; !dup {
				anchorPage[n] = p
			}
		}
	}
	var ids []string
	for id := range e.Ids {
		ids = append(ids, id)
	}
	sort.Strings(ids)
	for _, id := range ids {
		word := e.Ids[id]
		wp, drawn := pageOf[word]
		ap, has := anchorPage[id]
		if !drawn {
			continue
		}
		clause("C14 anchor = first element with the id", 1)
		if !has {
			out = append(out, Issue{"links:anchor-missing", "CreateAnchors", fmt.Sprintf("element id=%q (marker %q, page %d) has no anchor in CreateAnchors", id, word, wp+1)})
		} else if ap != wp {
			out = append(out, Issue{"links:anchor-wrong-element", "CreateAnchors", fmt.Sprintf("anchor %q is on page %d but the FIRST element with that id (marker %q) is drawn on page %d", id, ap+1, word, wp+1)})
		}
	}
	internal := map[string]bool{}
	targets := map[string]bool{}
	for _, s := range w.Internal {
		internal[s] = true
		if i := strings.Index(s, ">"); i >= 0 {
			targets[s[i+1:]] = true
		}
	}
	for _, l := range e.Links {
		wp, drawn := pageOf[l.Word]
		if !drawn {
			continue
		}
		clause("C14 internal link emitted on its page", 1)
		if !internal[fmt.Sprintf("%d>%s", wp, l.Target)] {
			out = append(out, Issue{"links:internal-missing", "AddInternalLink", fmt.Sprintf("link %q -> #%s on page %d was not emitted", l.Word, l.Target, wp+1)})
		}
	}
	for _, d := range e.Dangling {
		clause("C14 dangling link dropped", 1)
		if targets[d] {
			out = append(out, Issue{"links:dangling-emitted", "AddInternalLink", fmt.Sprintf("internal link to undefined anchor %q was emitted", d)})
		}
	}
	if e.Bookmarks != nil {
		// expected depth by the nearest preceding bookmark of lower level
		var stack []int // levels
		var want []string
		for _, b := range e.Bookmarks {
			for len(stack) > 0 && stack[len(stack)-1] >= b.Level {
				stack = stack[:len(stack)-1]
			}
			depth := len(stack)
			stack = append(stack, b.Level)
			pg := -1
			if p, ok := pageOf[b.Word]; ok {
				pg = p
			}
			// "{page}" in an expected label: the page counter where the element starts
			want = append(want, fmt.Sprintf("%d|%s|%d", depth, strings.ReplaceAll(b.Label, "{page}", strconv.Itoa(pg+1)), pg))
		}
		clause("C14 outline entries (depth, label, page)", len(want))
		if strings.Join(want, "\n") != strings.Join(w.Bookmarks, "\n") {
			k := 0
			for k < len(want) && k < len(w.Bookmarks) && want[k] == w.Bookmarks[k] {
				k++
			}
			a, b := "<none>", "<none>"
			if k < len(want) {
				a = want[k]
			}
			if k < len(w.Bookmarks) {
				b = w.Bookmarks[k]
			}
			out = append(out, Issue{"bookmarks:outline", "SetBookmarks", fmt.Sprintf("outline entry #%d: expected depth|label|page %q, got %q", k, a, b)})
		}
	}
	var mk []string
	for k := range e.Meta {
		mk = append(mk, k)
	}
	sort.Strings(mk)
	for _, k := range mk {
		clause("C14 metadata field forwarded", 1)
		if w.Meta[k] != e.Meta[k] {
			out = append(out, Issue{"metadata:" + k, "Set" + k, fmt.Sprintf("metadata %s: document says %q, backend got %q", k, e.Meta[k], w.Meta[k])})
		}
	}
	return dedupeIssues(out)
}

// ---- C01: the rest of the document is still rendered

func checkSentinels(sc *Scenario, w *OpResult, faultedFiles map[string]bool) []Issue {
	if w == nil || w.Status != "ok" {
		return nil
	}
	e := &sc.Expect
	sent := e.Sentinels
	if len(sent) == 0 && e.Conserve {
		for _, ws := range e.Flows {
			sent = append(sent, ws...)
		}
	}
	if len(sent) == 0 {
		return nil
	}
	if e.FirstLetter {
		w = rejoinFirstLetters(w, indexWords(e))
	}
	drawn := map[string]bool{}
	for _, ws := range w.PageWords {
		for _, x := range ws {
			drawn[x] = true
		}
	}
	var missing []string
	for _, s := range sent {
		if !drawn[s] {
			missing = append(missing, s)
		}
	}
	sort.Strings(missing)
	if len(missing) > 0 {
		return []Issue{{"rest-not-rendered", "sentinel-text", fmt.Sprintf("%d sentinel words outside the faulted construct were not drawn: %s", len(missing), clipList(missing))}}
	}
	return nil
}
