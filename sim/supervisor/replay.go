package main

import (
	"encoding/json"
	"fmt"
	"os"
	"strings"
	"time"
)

// cmdReplay re-executes a replay file in fresh worker processes built from /repo's
// current working tree. Exit 1 + VIOLATION line if the recorded violation
// reproduces, 0 if it does not, 2 on infrastructure trouble.
func cmdReplay(prop, file string) int {
	b, err := os.ReadFile(file)
	if err != nil {
		fmt.Fprintln(os.Stderr, "INFRA:", err)
		return 2
	}
	var rf ReplayFile
	if err := json.Unmarshal(b, &rf); err != nil {
		fmt.Fprintln(os.Stderr, "INFRA: bad replay file:", err)
		return 2
	}
	if rf.Property != "" && rf.Property != prop {
		fmt.Fprintf(os.Stderr, "INFRA: replay file is for %s, not %s\n", rf.Property, prop)
		return 2
	}
	c, code := newCtx(prop, "quick", rf.Class == "race")
	if c == nil {
		return code
	}
	for _, sp := range []*Spec{rf.Spec, rf.Spec2} {
		if err := c.resolveSites(sp); err != nil {
			fmt.Fprintln(os.Stderr, "INFRA:", err)
			return 2
		}
	}
	// the spec must be executable on this corpus/build at all
	probe := c.Pool.RunFresh(rf.Spec)
	for _, o := range probe.Ops {
		if strings.HasPrefix(o.Err, "harness:") {
			fmt.Fprintf(os.Stderr, "INFRA: replay spec cannot be executed: op %s/%s: %s\n", o.Op, o.ID, o.Err)
			return 2
		}
	}
	reproduced, detail := c.replayVerdict(&rf)
	fmt.Printf("replay %s: class=%s scenario=%s where=%s expect=%q\n  %s\n", file, rf.Class, rf.Scenario, rf.Where, rf.Expect, detail)
	if reproduced {
		fmt.Printf("VIOLATION property=%s replay=%s\n", prop, file)
		return 1
	}
	fmt.Println("not reproduced on this tree")
	return 0
}

func (c *Ctx) replayVerdict(rf *ReplayFile) (bool, string) {
	switch {
	case rf.Class == "race":
		pool := NewPool(c.Build.RaceWorker, c.Pool.args, []string{"GORACE=halt_on_error=1 exitcode=66"}, 1, 300*time.Second)
		for i := 0; i < 3; i++ {
			r := pool.RunFresh(rf.Spec)
			if r.Fatal != "" && raceFrame(r.Stderr) != "" {
				return true, fmt.Sprintf("race detector report at %s (attempt %d): %s", raceFrame(r.Stderr), i+1, clip(r.Stderr, 800))
			}
		}
		return false, "no race report in 3 free-running attempts (real scheduler: a race may need more attempts)"
	case rf.Class == "init-order":
		mode := strings.TrimPrefix(rf.Expect, "init-order ")
		pool := NewPool(c.Build.SimWorker, c.Pool.args, []string{"VERIFSIM_INIT_ORDER=" + mode}, 1, c.Pool.timeout)
		a := pool.RunFresh(rf.Spec)
		b := c.Pool.RunFresh(rf.Spec2)
		if outcomeSig(a.op("t")) != outcomeSig(b.op("t")) {
			return true, fmt.Sprintf("under init order %s: %s vs %s", mode, outcomeSig(a.op("t")), outcomeSig(b.op("t")))
		}
		return false, "trace equals the reference under init order " + mode
	case rf.Class == "shared-write":
		r := c.Pool.RunFresh(rf.Spec)
		for _, mc := range r.MapConflicts {
			if w := c.conflictWhere(mc); w == rf.Where {
				return true, c.conflictDetail(mc)
			}
		}
		if len(r.MapConflicts) > 0 {
			return true, "another map is written by two tasks: " + c.conflictDetail(r.MapConflicts[0])
		}
		return false, "no map is written by two tasks of this run"
	case rf.Class == "rerun-differs":
		a := c.Pool.RunFresh(rf.Spec) // (carries the environment of the second process)
		plain := cloneSpec(rf.Spec)
		plain.Env = nil
		b := c.Pool.RunFresh(plain)
		if a.EventHash != b.EventHash || outcomeSig(a.op("t")) != outcomeSig(b.op("t")) {
			return true, fmt.Sprintf("two fresh processes disagree: %s/%s vs %s/%s", a.EventHash, outcomeSig(a.op("t")), b.EventHash, outcomeSig(b.op("t")))
		}
		return false, "two fresh processes agree"
	case strings.Contains(rf.Expect, "trace-differs-from-spec2"):
		task, op := 0, "t"
		f := strings.Fields(rf.Expect)
		if len(f) == 3 && f[0] == "op" {
			op = f[1]
		}
		if len(f) == 3 && f[0] == "task" {
			fmt.Sscanf(f[1], "%d", &task)
		}
		a := c.Pool.RunFresh(rf.Spec)
		b := c.Pool.RunFresh(rf.Spec2)
		got := outcomeSig(a.taskOp(task, op))
		if cl, _, _ := crashOf(a); cl != "" && a.taskOp(task, op) == nil {
			got = cl
		}
		want := outcomeSig(b.op("t"))
		if got != want {
			return true, fmt.Sprintf("%s vs reference %s; %s", got, want, c.firstTraceDiff(rf.Spec2, rf.Spec, 0, task, "t", op))
		}
		return false, "trace equals the reference: " + got
	}
	// crash classes
	if strings.HasPrefix(rf.Class, "unevaluable:") {
		rf.Class = strings.TrimPrefix(rf.Class, "unevaluable:")
	}
	if rf.Class == "panic" || rf.Class == "budget" || strings.HasPrefix(rf.Class, "fatal:") {
		r := c.Pool.RunFresh(rf.Spec)
		cl, wh, de := crashOf(r)
		if cl == rf.Class && wh == rf.Where {
			return true, de
		}
		if cl != "" {
			return true, fmt.Sprintf("crashes differently: %s at %s: %s", cl, wh, de)
		}
		return false, "run returned normally"
	}
	// oracle classes of the slice properties
	cs, err := caseFromSpec(c, rf.Spec)
	if err != nil {
		return false, "cannot rebuild case: " + err.Error()
	}
	r := c.Pool.RunFresh(rf.Spec)
	if rf.Class == "rest-not-rendered" {
		for _, is := range checkSentinels(cs.sc, r.op("t"), nil) {
			return true, is.Detail
		}
		return false, "sentinel text drawn"
	}
	var twin *Result
	if rf.Spec2 != nil {
		twin = c.Pool.RunFresh(rf.Spec2)
	}
	or := semOracles(c.Prop)
	if or == nil {
		return false, "no oracle for this property/class"
	}
	for _, is := range or(cs, r, twin) {
		if is.Class == rf.Class && is.Where == rf.Where {
			return true, is.Detail
		}
	}
	return false, "oracle holds on this tree"
}
