// verif is the supervisor of the deterministic simulator (DESIGN.md §2): it builds
// the instrumented worker from /repo's current working tree, expands VERIF_SEED into
// explicit run specs, fans them out to worker processes, evaluates the oracles,
// minimises violations into replay files, writes the evidence file and sets the
// exit code (0 held / 1 VIOLATION / 2 infrastructure trouble).
package main

import (
	"encoding/json"
	"fmt"
	"os"
	"path/filepath"
	"runtime"
	"sort"
	"strconv"
	"strings"
	"time"
)

var verifDir = "/verif"

type Ctx struct {
	Prop   string
	Tier   string
	Seed   uint64
	Build  *Build
	Pool   *Pool
	Corpus *Corpus
	Known  *Known
	Start  time.Time
	Budget time.Duration // wall-clock budget for the exploration part

	Findings []*Finding
	nMinimized int
	Ev       *Evidence
	infra    []string // infrastructure problems (exit 2)
}

func (c *Ctx) Infra(format string, args ...interface{}) {
	msg := fmt.Sprintf(format, args...)
	fmt.Fprintln(os.Stderr, "INFRA:", msg)
	c.infra = append(c.infra, msg)
}

func (c *Ctx) Logf(format string, args ...interface{}) {
	fmt.Fprintf(os.Stderr, "[%6.1fs] %s\n", time.Since(c.Start).Seconds(), fmt.Sprintf(format, args...))
}

func (c *Ctx) TimeLeft() time.Duration { return c.Budget - time.Since(c.Start) }

// mayMinimize bounds the (serial) minimisation effort of one check: at most 8
// findings are shrunk, and none once the exploration budget plus a grace period is
// spent; the others are reported with the spec that exposed them.
func (c *Ctx) mayMinimize() bool {
	grace := 2 * time.Minute
	if c.Tier == "thorough" {
		grace = 15 * time.Minute
	}
	if c.nMinimized >= 8 || time.Since(c.Start) > c.Budget+grace {
		return false
	}
	c.nMinimized++
	return true
}

func usage() {
	fmt.Fprintln(os.Stderr, `usage:
  verif check <C01|C02|C07|C12|C14|C15> <quick|thorough>
  verif replay <ID> <replay file>
  verif selftest             determinism / transparency self-test of the simulator
  verif show <scenario> [engine]   run one scenario under canon order and print what was drawn`)
	os.Exit(2)
}

func envInt(name string, def uint64) uint64 {
	if v := os.Getenv(name); v != "" {
		if n, err := strconv.ParseUint(v, 10, 64); err == nil {
			return n
		}
		if n, err := strconv.ParseInt(v, 10, 64); err == nil {
			return uint64(n)
		}
	}
	return def
}

func main() {
	if d := os.Getenv("VERIF_DIR"); d != "" {
		verifDir = d
	} else if exe, err := os.Executable(); err == nil {
		// bin/verif -> verif dir
		verifDir = filepath.Dir(filepath.Dir(exe))
	}
	if len(os.Args) < 2 {
		usage()
	}
	switch os.Args[1] {
	case "check":
		if len(os.Args) != 4 {
			usage()
		}
		os.Exit(cmdCheck(os.Args[2], os.Args[3]))
	case "replay":
		if len(os.Args) != 4 {
			usage()
		}
		os.Exit(cmdReplay(os.Args[2], os.Args[3]))
	case "selftest":
		os.Exit(cmdSelftest())
	case "show":
		if len(os.Args) < 3 {
			usage()
		}
		eng := "pango"
		if len(os.Args) > 3 {
			eng = os.Args[3]
		}
		os.Exit(cmdShow(os.Args[2], eng))
	default:
		usage()
	}
}

func newCtx(prop, tier string, needRace bool) (*Ctx, int) {
	c := &Ctx{Prop: prop, Tier: tier, Seed: envInt("VERIF_SEED", 1), Start: time.Now()}
	c.Ev = newEvidence(c)
	var err error
	c.Build, err = ensureBuild(needRace, c)
	if err != nil {
		fmt.Fprintln(os.Stderr, "INFRA: build failed:", err)
		return nil, 2
	}
	c.Corpus, err = loadCorpus(filepath.Join(verifDir, "corpus"))
	if err != nil {
		fmt.Fprintln(os.Stderr, "INFRA: corpus:", err)
		return nil, 2
	}
	c.Known, err = loadKnown(filepath.Join(verifDir, "KNOWN_FINDINGS.txt"))
	if err != nil {
		fmt.Fprintln(os.Stderr, "INFRA: known findings:", err)
		return nil, 2
	}
	c.Known.prop = prop
	nw := int(envInt("VERIF_WORKERS", uint64(runtime.NumCPU())))
	if nw < 1 {
		nw = 1
	}
	c.Pool = NewPool(c.Build.SimWorker, []string{"-corpus", filepath.Join(verifDir, "corpus"), "-nsites", strconv.Itoa(c.Build.NSites)}, nil, nw, 40*time.Second)
	return c, 0
}

func cmdCheck(prop, tier string) int {
	if tier != "quick" && tier != "thorough" {
		usage()
	}
	drivers := map[string]func(*Ctx){
		"C01": checkC01, "C02": checkC02, "C07": checkC07, "C12": checkC12, "C14": checkC14, "C15": checkC15,
	}
	drv, ok := drivers[prop]
	if !ok {
		fmt.Fprintf(os.Stderr, "property %s is not claimed by this framework (see MANIFEST.json not_applicable)\n", prop)
		return 2
	}
	c, code := newCtx(prop, tier, prop == "C15")
	if c == nil {
		return code
	}
	c.Budget = tierBudget(prop, tier)
	c.Logf("check %s %s seed=%d workers=%d build=%s", prop, tier, c.Seed, c.Pool.n, c.Build.Key[:12])
	drv(c)
	return c.finish()
}

func tierBudget(prop, tier string) time.Duration {
	if v := os.Getenv("VERIF_BUDGET_S"); v != "" {
		if n, err := strconv.Atoi(v); err == nil {
			return time.Duration(n) * time.Second
		}
	}
	if tier == "quick" {
		return 150 * time.Second
	}
	return 40 * time.Minute
}

// finish prints findings, writes evidence, returns the exit code.
func (c *Ctx) finish() int {
	// dedupe findings by fingerprint
	seen := map[string]bool{}
	var uniq []*Finding
	for _, f := range c.Findings {
		fp := f.Fingerprint()
		if seen[fp] {
			continue
		}
		seen[fp] = true
		uniq = append(uniq, f)
	}
	sort.SliceStable(uniq, func(i, j int) bool { return uniq[i].Fingerprint() < uniq[j].Fingerprint() })
	nViol := 0
	knownPrinted := map[string]bool{}
	for _, f := range uniq {
		if k := c.Known.Match(f); k != nil {
			if !knownPrinted[k.Line] {
				knownPrinted[k.Line] = true
				fmt.Printf("KNOWN-FINDING: property=%s %s\n", c.Prop, k.What())
			}
			c.Ev.KnownSeen = append(c.Ev.KnownSeen, f.Fingerprint())
			continue
		}
		nViol++
		path := c.writeReplay(f)
		fmt.Printf("VIOLATION property=%s replay=%s\n", c.Prop, path)
		fmt.Printf("  class=%s scenario=%s where=%s\n  %s\n", f.Class, f.Scenario, f.Where, f.Detail)
	}
	for _, k := range c.Known.ForProp(c.Prop) {
		if !knownPrinted[k.Line] && k.Kind == "known" {
			c.Ev.KnownNotReproduced = append(c.Ev.KnownNotReproduced, k.What())
		}
	}
	c.Ev.Violations = nViol
	if len(c.infra) > 0 {
		c.Ev.Infra = c.infra
	}
	if err := c.Ev.write(c); err != nil {
		fmt.Fprintln(os.Stderr, "INFRA: cannot write evidence:", err)
		return 2
	}
	c.Logf("done: runs=%d worker-deaths=%d findings=%d violations=%d known=%d", c.Pool.Runs, c.Pool.Deaths, len(uniq), nViol, len(knownPrinted))
	if nViol > 0 {
		return 1
	}
	if len(c.infra) > 0 {
		return 2
	}
	return 0
}

func (c *Ctx) writeReplay(f *Finding) string {
	dir := filepath.Join(verifDir, "replays")
	os.MkdirAll(dir, 0o755)
	c.nameSites(f.Spec)
	if f.Spec2 != nil {
		c.nameSites(f.Spec2)
	}
	rf := ReplayFile{Property: c.Prop, Class: f.Class, Scenario: f.Scenario, Where: f.Where, Detail: f.Detail, Oracle: f.Oracle, Seed: c.Seed, Tier: c.Tier, Spec: f.Spec, Spec2: f.Spec2, Expect: f.Expect}
	b, _ := json.MarshalIndent(rf, "", " ")
	h := fnv64(string(b))
	path := filepath.Join(dir, fmt.Sprintf("%s-%s-%012x.json", c.Prop, sanitize(f.Class), h&0xffffffffffff))
	os.WriteFile(path, b, 0o644)
	return path
}

func sanitize(s string) string {
	return strings.Map(func(r rune) rune {
		if r >= 'a' && r <= 'z' || r >= 'A' && r <= 'Z' || r >= '0' && r <= '9' || r == '-' {
			return r
		}
		return '_'
	}, s)
}

func fnv64(s string) uint64 {
	h := uint64(1469598103934665603)
	for i := 0; i < len(s); i++ {
		h ^= uint64(s[i])
		h *= 1099511628211
	}
	return h
}
