package main

import (
	"fmt"
	"os"
	"regexp"
	"strconv"
	"strings"
)

// gotext: the repository's go-text drawing path is a stub (no glyphs reach the
// backend), so text-level oracles use the words of the laid-out TextBoxes instead.
func drawnOrLaidOut(cs *semCase, r *Result, id string) *OpResult {
	w := r.op(id)
	if cs.cfg.Engine != "gotext" {
		return w
	}
	l := r.op("l")
	if l == nil || l.Status != "ok" {
		return w
	}
	out := &OpResult{Op: "write", ID: id, Status: "ok", PageWords: l.LayoutWords}
	for _, g := range l.PageGeom {
		out.Pages = append(out.Pages, PageInfo{Width: g.W, Height: g.H})
	}
	return out
}

func checkC02(c *Ctx) {
	c.Ev.Rule = "one case = one simulated run of a corpus scenario under (restart pattern = subset of active pages-probes) x (map-order plan) x (engine, input mode, hints); non-trivial = at least one restart, permuted range site or non-default configuration; distinct = distinct (scenario, config, plan) tuple. Oracles: exact-once + in-order per flow, repetition only for CSS-defined repeats, laid-out TextBox words = drawn words per page, same words on the same pages as the restart-free twin"
	c.Ev.Assume = []string{"corpus documents only (the input quantifier of C02 is not searched)", "expected words and flow membership come from the generator's construction, not from the implementation", "Ahem font: twin and probe variant have identical geometry"}
	d := &semDriver{c: c, perScenarioQuick: 40, perScenarioThorough: 400,
		use:     func(sc *Scenario) bool { return sc.Expect.Conserve },
		oracles: semOracles("C02")}
	d.run()
}

func checkC12(c *Ctx) {
	c.Ev.Rule = "one case = one simulated run of a corpus scenario under (restart pattern) x (map-order plan) x (engine, input mode); non-trivial/distinct as for C02. Oracles: AddPage sizes = @page sizes for the page's selector set, forced breaks start a page of the requested side, counter(page)/counter(pages) in margin boxes and in-flow probes equal position/total, no main-flow line below the content box, plain pages are full"
	c.Ev.Assume = []string{"corpus documents only", "page 1 is a right page (LTR)", "geometry clauses use the boxes returned by layout.Layout for the same inputs"}
	d := &semDriver{c: c, perScenarioQuick: 40, perScenarioThorough: 400,
		use:     func(sc *Scenario) bool { return sc.Expect.PageW > 0 },
		oracles: semOracles("C12")}
	d.run()
}

func checkC14(c *Ctx) {
	c.Ev.Rule = "one case = one simulated run of a corpus scenario under (map-order plan) x (zoom) x (restart pattern) x (0-1 fetch fault on a resource) x (document written once or twice); the protocol monitor runs inside the recording backend on every call; non-trivial/distinct as for C02. Rules: one AddPage per page in order before CreateAnchors, every float finite, Paint/Clip preceded by path construction, fonts registered before use, internal links name anchors defined exactly once (first element with the id), dangling links dropped, outline consistent with levels and pages, metadata unchanged"
	c.Ev.Assume = []string{"corpus documents only", "the monitor's rules are taken from the property statement; Save/Restore do not save the path"}
	d := &semDriver{c: c, perScenarioQuick: 30, perScenarioThorough: 300, withZoom: true, withFaults: true, withRewrite: true,
		use:     func(sc *Scenario) bool { return true },
		oracles: semOracles("C14")}
	d.run()
}

func semOracles(prop string) func(cs *semCase, r *Result, twin *Result) []Issue {
	switch prop {
	case "C02":
		return func(cs *semCase, r *Result, twin *Result) []Issue {
			w := drawnOrLaidOut(cs, r, "t")
			var out []Issue
			out = append(out, checkConservation(cs.sc, w)...)
			if cs.cfg.Engine != "gotext" {
				out = append(out, checkLayoutVsDrawn(r.op("l"), w)...)
			}
			if twin != nil && (len(cs.cfg.Probes) > 0 || cs.spec.Order.Mode != "canon") {
				tcs := &semCase{sc: cs.sc, cfg: Cfg{Engine: cs.cfg.Engine}}
				out = append(out, checkRestartEquivalence(drawnOrLaidOut(tcs, twin, "t"), w)...)
			}
			if t2 := r.op("t2"); t2 != nil && cs.cfg.Engine != "gotext" {
				for _, is := range checkConservation(cs.sc, t2) {
					is.Class = "rewrite:" + is.Class
					out = append(out, is)
				}
			}
			return out
		}
	case "C12":
		return func(cs *semCase, r *Result, twin *Result) []Issue {
			return checkPages(cs.sc, drawnOrLaidOut(cs, r, "t"), r.op("l"), cs.cfg.Probes)
		}
	case "C14":
		return func(cs *semCase, r *Result, twin *Result) []Issue {
			out := checkBackendProtocol(cs.sc, r.op("t"))
			if t2 := r.op("t2"); t2 != nil {
				for _, is := range checkBackendProtocol(cs.sc, t2) {
					is.Class = "rewrite:" + is.Class
					out = append(out, is)
				}
			}
			return out
		}
	}
	return nil
}

var reProbeSel = regexp.MustCompile(`\.p(\d+)::after`)

// caseFromSpec rebuilds the (scenario, cfg) of a single-document spec, for replay.
func caseFromSpec(c *Ctx, sp *Spec) (*semCase, error) {
	cs := &semCase{spec: sp, cfg: Cfg{Engine: "pango", Zoom: 1}, faulty: map[string]bool{}}
	for _, o := range sp.Tasks[0] {
		switch o.Op {
		case "fontconfig":
			cs.cfg.Engine = o.Engine
		case "html":
			cs.sc = c.Corpus.ByName[o.Scenario]
			cs.cfg.Input = o.Input
		case "css":
			for _, m := range reProbeSel.FindAllStringSubmatch(o.Text, -1) {
				k, _ := strconv.Atoi(m[1])
				cs.cfg.Probes = append(cs.cfg.Probes, k)
			}
		case "write":
			if o.ID == "t" && o.Zoom != 0 {
				cs.cfg.Zoom = o.Zoom
			}
		case "render":
			cs.cfg.Hints = o.Hints
		}
	}
	if cs.sc == nil {
		return nil, fmt.Errorf("spec has no html op on a known scenario")
	}
	cs.twin = twinKey(cs.sc, cs.cfg)
	return cs, nil
}

func cmdShow(name, engine string) int {
	c, code := newCtx("show", "quick", false)
	if c == nil {
		return code
	}
	sc := c.Corpus.ByName[name]
	if sc == nil {
		fmt.Fprintln(os.Stderr, "no such scenario")
		return 2
	}
	var probes []int
	for _, f := range strings.Split(os.Getenv("VERIF_PROBES"), ",") {
		if f != "" {
			k, _ := strconv.Atoi(f)
			probes = append(probes, k)
		}
	}
	sp := &Spec{ID: "show", Order: OrderPlan{Mode: envStr("VERIF_ORDER", "canon")}, Tasks: [][]Op{docOps(sc, Cfg{Engine: engine, Zoom: 1, Probes: probes, Hints: os.Getenv("VERIF_HINTS") != ""}, "", true)}, Detail: os.Getenv("VERIF_DETAIL") != ""}
	sp.Budget = 400000000
	if b, err := strconv.ParseUint(os.Getenv("VERIF_BUDGET"), 10, 64); err == nil {
		sp.Budget = b
	}
	r := c.Pool.RunFresh(sp)
	if r.Fatal != "" {
		fmt.Println("FATAL", r.FatalClass, r.Fatal)
		fmt.Println(r.Stderr)
		return 1
	}
	cs := &semCase{sc: sc, cfg: Cfg{Engine: engine, Zoom: 1, Probes: probes}, spec: sp}
	for _, o := range r.Ops {
		fmt.Printf("op %s/%s status=%s steps=%d %s %s\n", o.Op, o.ID, o.Status, o.Steps, o.Err, o.Frame)
		if o.Status == "panic" {
			fmt.Println(o.Stack)
		}
		if o.Op == "layout" {
			for i, g := range o.PageGeom {
				fmt.Printf("  layout page %d geom %+v\n    words: %s\n", i, g, strings.Join(o.LayoutWords[i], " "))
			}
		}
		if o.Op == "write" {
			fmt.Printf("  trace=%s calls=%d pages=%d\n", o.Trace, o.Calls, o.NPages)
			for i, w := range o.PageWords {
				fmt.Printf("  page %d %v: %s\n", i, o.Pages[i], strings.Join(w, " "))
			}
			fmt.Printf("  anchors=%v internal=%v bookmarks=%v meta=%v images=%v attach=%v embedded=%v\n", o.Anchors, o.Internal, o.Bookmarks, o.Meta, o.Images, o.Attach, o.Embedded)
			fmt.Printf("  violations=%v\n  kinds=%v\n", o.Violations, o.Kinds)
			if sp.Detail {
				for _, t := range o.Texts {
					fmt.Printf("   text p%d c%d (%.1f,%.1f) size %.1f %q\n", t.Page, t.Canvas, t.X, t.Y, t.Size, t.Text)
				}
			}
		}
	}
	w := drawnOrLaidOut(cs, r, "t")
	fmt.Println("C02 issues:", checkConservation(sc, w), checkLayoutVsDrawn(r.op("l"), w))
	fmt.Println("C12 issues:", checkPages(sc, w, r.op("l"), probes))
	fmt.Println("C14 issues:", checkBackendProtocol(sc, r.op("t")))
	fmt.Println("C01 issues:", checkSentinels(sc, w, nil))
	fmt.Printf("steps=%d event=%s warnings=%d fetches:\n", r.Steps, r.EventHash, r.Warnings)
	for _, f := range r.Fetches {
		fmt.Printf("  %s #%d %s -> %s (%d)\n", f.Op, f.Seq, f.URL, f.Outcome, f.Len)
	}
	for id, st := range r.Sites {
		if st.Relevant > 0 {
			fmt.Printf("  site %s visits=%d relevant=%d maxkeys=%d\n", c.Build.SiteName(id), st.Visits, st.Relevant, st.MaxKeys)
		}
	}
	return 0
}

func envStr(name, def string) string {
	if v := os.Getenv(name); v != "" {
		return v
	}
	return def
}
