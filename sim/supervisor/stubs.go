package main

import (
	"encoding/json"
	"fmt"
	"os"
	"strings"
)

func checkC01(c *Ctx) { c.Infra("C01 driver not built yet") }
func checkC02(c *Ctx) { c.Infra("C02 driver not built yet") }
func checkC07(c *Ctx) { c.Infra("C07 driver not built yet") }
func checkC12(c *Ctx) { c.Infra("C12 driver not built yet") }
func checkC14(c *Ctx) { c.Infra("C14 driver not built yet") }

func cmdReplay(prop, file string) int { return 2 }
func cmdSelftest() int              { return 2 }

func cmdShow(name, engine string) int {
	c, code := newCtx("show", "quick", false)
	if c == nil {
		return code
	}
	sc := c.Corpus.ByName[name]
	if sc == nil {
		fmt.Fprintln(os.Stderr, "no such scenario")
		return 2
	}
	sp := &Spec{ID: "show", Order: OrderPlan{Mode: "canon"}, Tasks: [][]Op{docOps(sc, Cfg{Engine: engine, Zoom: 1}, "", true)}, Detail: os.Getenv("VERIF_DETAIL") != ""}
	r := c.Pool.RunFresh(sp)
	if r.Fatal != "" {
		fmt.Println("FATAL", r.FatalClass, r.Fatal)
		fmt.Println(r.Stderr)
		return 1
	}
	for _, o := range r.Ops {
		fmt.Printf("op %s/%s status=%s steps=%d %s %s\n", o.Op, o.ID, o.Status, o.Steps, o.Err, o.Frame)
		if o.Status == "panic" {
			fmt.Println(o.Stack)
		}
		if o.Op == "layout" {
			for i, g := range o.PageGeom {
				b, _ := json.Marshal(g)
				fmt.Printf("  layout page %d geom %s\n    words: %s\n", i, b, strings.Join(o.LayoutWords[i], " "))
			}
		}
		if o.Op == "write" {
			fmt.Printf("  trace=%s calls=%d pages=%d\n", o.Trace, o.Calls, o.NPages)
			for i, w := range o.PageWords {
				fmt.Printf("  page %d %v: %s\n", i, o.Pages[i], strings.Join(w, " "))
			}
			fmt.Printf("  anchors=%v internal=%v bookmarks=%v meta=%v images=%v attach=%v embedded=%v\n", o.Anchors, o.Internal, o.Bookmarks, o.Meta, o.Images, o.Attach, o.Embedded)
			fmt.Printf("  violations=%v\n  kinds=%v\n", o.Violations, o.Kinds)
			if sp.Detail {
				for _, t := range o.Texts {
					fmt.Printf("   text p%d c%d (%.1f,%.1f) size %.1f %q\n", t.Page, t.Canvas, t.X, t.Y, t.Size, t.Text)
				}
			}
		}
	}
	fmt.Printf("steps=%d event=%s warnings=%d fetches:\n", r.Steps, r.EventHash, r.Warnings)
	for _, f := range r.Fetches {
		fmt.Printf("  %s #%d %s -> %s (%d)\n", f.Op, f.Seq, f.URL, f.Outcome, f.Len)
	}
	for id, st := range r.Sites {
		if st.Relevant > 0 {
			fmt.Printf("  site %s visits=%d relevant=%d maxkeys=%d\n", c.Build.SiteName(id), st.Visits, st.Relevant, st.MaxKeys)
		}
	}
	return 0
}
