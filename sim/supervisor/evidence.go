package main

import (
	"encoding/json"
	"os"
	"path/filepath"
	"sort"
	"time"
)

// Evidence is what one check run actually covered (EVIDENCE.schema.json + extras).
type Evidence struct {
	Level      string
	Rule       string
	Evals      int
	distinct   map[string]bool // distinct non-trivial cases (by signature)
	Samples    []interface{}
	Extra      map[string]interface{}
	Assume     []string
	Violations int
	KnownSeen  []string
	KnownNotReproduced []string
	Infra      []string
	Exhaustive bool

	FaultsConfigured map[string]int
	FaultsFired      map[string]int
	SiteVisits       map[string]*SiteStat
	SitePerms        map[string]map[string]bool
	TraceHashes      map[string]bool
	Steps            uint64
	FuncsHitMax      int
	Probes           map[string]int
	SwitchVectors    map[string]bool
	GWriteSites      map[string]int
}

func newEvidence(c *Ctx) *Evidence {
	return &Evidence{Level: "exploration", distinct: map[string]bool{}, Extra: map[string]interface{}{},
		FaultsConfigured: map[string]int{}, FaultsFired: map[string]int{}, SiteVisits: map[string]*SiteStat{},
		SitePerms: map[string]map[string]bool{}, TraceHashes: map[string]bool{}, Probes: map[string]int{}, SwitchVectors: map[string]bool{}, GWriteSites: map[string]int{}}
}

func (e *Evidence) Distinct(sig string) { e.distinct[sig] = true }

func (e *Evidence) Sample(v interface{}) {
	if len(e.Samples) < 12 {
		e.Samples = append(e.Samples, v)
	}
}

// Absorb folds the seam statistics of one result into the evidence.
func (e *Evidence) Absorb(c *Ctx, spec *Spec, r *Result) {
	e.Evals++
	if r == nil {
		return
	}
	e.Steps += r.Steps
	if r.FuncsHit > e.FuncsHitMax {
		e.FuncsHitMax = r.FuncsHit
	}
	for k, v := range r.FaultsFired {
		e.FaultsFired[k] += v
	}
	for _, f := range spec.Faults {
		e.FaultsConfigured[f.Kind]++
	}
	for id, st := range r.Sites {
		name := c.Build.SiteName(id)
		a := e.SiteVisits[name]
		if a == nil {
			a = &SiteStat{}
			e.SiteVisits[name] = a
		}
		a.Visits += st.Visits
		a.Relevant += st.Relevant
		a.Permuted += st.Permuted
		if st.MaxKeys > a.MaxKeys {
			a.MaxKeys = st.MaxKeys
		}
	}
	for id, n := range r.GWrites {
		if st, ok := c.Build.Sites[id]; ok {
			e.GWriteSites[st.File+"#"+st.Func+"("+st.Name+")"] += n
		}
	}
	for i := range r.Ops {
		if r.Ops[i].Trace != "" {
			e.TraceHashes[r.Ops[i].Trace] = true
		}
	}
	if len(r.Switches) > 0 {
		b, _ := json.Marshal(r.Switches)
		e.SwitchVectors[string(b)] = true
	}
}

func (e *Evidence) write(c *Ctx) error {
	wall := time.Since(c.Start).Seconds()
	cov := map[string]interface{}{
		"evaluations":         e.Evals,
		"distinct_nontrivial": len(e.distinct),
		"rule":                e.Rule,
		"samples":             e.Samples,
		"exhaustive":          e.Exhaustive,
		"runs_total":          c.Pool.Runs,
		"runs_per_hour":       int(float64(c.Pool.Runs) / wall * 3600),
		"simulated_steps":     e.Steps,
		"simulated_time_note": "the system has no clock; simulated time = function-entry steps + seam events",
		"worker_deaths":       c.Pool.Deaths,
		"faults_configured":   e.FaultsConfigured,
		"faults_fired":        e.FaultsFired,
		"distinct_traces":     len(e.TraceHashes),
		"distinct_switch_vectors": len(e.SwitchVectors),
		"functions_reached_max": e.FuncsHitMax,
		"probes":              e.Probes,
		"package_level_write_sites_hit": e.GWriteSites,
		"build_key":           c.Build.Key[:16],
		"uncontrolled_sources_reported_by_rewriter": c.Build.Uncontrolled,
		"components": map[string]interface{}{
			"real": []string{"all of /repo (instrumented by the rewriter only: range-over-map, func entry, mutex, os.ReadFile)", "golang.org/x/net/html", "textprocessing pango+fontconfig", "go-text typesetting", "stdlib image decoders", "utils.DefaultUrlFetcher (data: URIs; http via SimTransport)"},
			"stub": []string{"SimSite UrlFetcher", "SimTransport http.RoundTripper", "SimReader", "SimDisk", "recording backend + C14 monitor", "token scheduler", "map-order oracle (simrt.Keys)"},
		},
		"known_findings_seen":           e.KnownSeen,
		"known_findings_not_reproduced": e.KnownNotReproduced,
	}
	if len(e.Infra) > 0 {
		cov["infrastructure_problems"] = e.Infra
	}
	clauseChecks.Lock()
	if len(clauseChecks.m) > 0 {
		cc := map[string]int{}
		for k, v := range clauseChecks.m {
			cc[k] = v
		}
		cov["oracle_clause_checks"] = cc
	}
	clauseChecks.Unlock()
	// per-site reach
	type sr struct {
		Site     string `json:"site"`
		Visits   uint64 `json:"visits"`
		Relevant uint64 `json:"order_relevant_visits"`
		Permuted uint64 `json:"permuted_visits"`
		MaxKeys  int    `json:"max_keys"`
	}
	var sites []sr
	var blind []string
	for _, s := range c.Build.Ranges {
		st := e.SiteVisits[s.Name]
		if st == nil || st.Relevant == 0 {
			blind = append(blind, s.Name)
			if st == nil {
				continue
			}
		}
		sites = append(sites, sr{s.Name, st.Visits, st.Relevant, st.Permuted, st.MaxKeys})
	}
	sort.Slice(sites, func(i, j int) bool { return sites[i].Site < sites[j].Site })
	cov["map_order_sites"] = sites
	cov["map_order_blind_spots"] = blind
	for k, v := range e.Extra {
		if m, ok := v.(map[string]bool); ok {
			keys := sortedKeys(m)
			if len(keys) > 40 {
				keys = keys[:40]
			}
			cov[k] = map[string]interface{}{"distinct": len(m), "examples": keys}
			continue
		}
		cov[k] = v
	}
	doc := map[string]interface{}{
		"property_id": c.Prop,
		"tier":        c.Tier,
		"seed":        int64(c.Seed),
		"level":       e.Level,
		"coverage":    cov,
		"assumptions": e.Assume,
		"wall_s":      wall,
		"violations":  e.Violations,
	}
	b, err := json.MarshalIndent(doc, "", " ")
	if err != nil {
		return err
	}
	dir := filepath.Join(verifDir, "evidence")
	if d := os.Getenv("VERIF_EVIDENCE_DIR"); d != "" {
		// runs against a deliberately changed tree (tools/try_patch*.sh) must not overwrite the
		// evidence of the unchanged one
		dir = d
	}
	os.MkdirAll(dir, 0o755)
	return os.WriteFile(filepath.Join(dir, c.Prop+".json"), b, 0o644)
}
