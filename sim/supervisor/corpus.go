package main

import (
	"encoding/json"
	"fmt"
	"os"
	"path/filepath"
	"sort"
	"strings"
)

type SiteFile struct {
	Mime     string `json:"mime,omitempty"`
	Charset  string `json:"charset,omitempty"`
	Redirect string `json:"redirect,omitempty"`
	Filename string `json:"filename,omitempty"`
	Gzip     bool   `json:"gzip,omitempty"`
	Kind     string `json:"kind,omitempty"` // css | svg | image | font | html | attachment (what a fault on it may affect)
	Size     int    `json:"-"`
}

type ForcedBreak struct {
	Word string `json:"word"`
	Side string `json:"side"` // any | left | right
}

type LinkExp struct {
	Word   string `json:"word"`
	Target string `json:"target"`
}

type BookmarkExp struct {
	Level int    `json:"level"`
	Label string `json:"label"`
	Word  string `json:"word"`
}

// Expect holds the machine-readable facts about a scenario that the oracles need.
// They are produced by the corpus generator from the document's construction,
// never from the implementation's output.
type Expect struct {
	Flows     map[string][]string   `json:"flows,omitempty"`
	Repeat    []string              `json:"repeat,omitempty"`
	RepeatOncePerPage bool          `json:"repeat_once_per_page,omitempty"` // the repeating words come from position: fixed boxes: exactly once on every page
	Margin    bool                  `json:"margin,omitempty"`  // margin boxes draw "pg<P>of<N>"
	Probes    int                   `json:"probes,omitempty"`  // in-flow "np<N>" probes
	ProbeLiteral int                `json:"probe_literal,omitempty"` // value shown by an inactive probe (default 9)
	PageW     float64               `json:"page_w,omitempty"`
	PageH     float64               `json:"page_h,omitempty"`
	PageSizes map[string][2]float64 `json:"page_sizes,omitempty"` // first | left | right | blank | <name>
	NamedOf   map[string]string     `json:"named_of,omitempty"`   // marker word -> named page its block uses
	Forced    []ForcedBreak         `json:"forced,omitempty"`
	Ids       map[string]string     `json:"ids,omitempty"`
	Links     []LinkExp             `json:"links,omitempty"`
	Dangling  []string              `json:"dangling,omitempty"`
	Bookmarks []BookmarkExp         `json:"bookmarks,omitempty"`
	Meta      map[string]string     `json:"meta,omitempty"`
	Twin      string                `json:"twin,omitempty"`
	Sentinels []string              `json:"sentinels,omitempty"`
	// FaultWords: resource file -> words that may legitimately disappear / appear
	// when that resource is faulted (e.g. alt text appears, svg text disappears).
	FaultWords map[string][]string `json:"fault_words,omitempty"`
	FitsPage   bool                `json:"fits_page,omitempty"`
	Plain      bool                `json:"plain,omitempty"`
	LineHeight float64             `json:"line_height,omitempty"`
	MarginTop  float64             `json:"margin_top,omitempty"`
	MarginBottom float64           `json:"margin_bottom,omitempty"`
	// PageMargins: expected [top right bottom left] margins by page kind: first | left | right | blank-left | blank-right
	PageMargins map[string][4]float64 `json:"page_margins,omitempty"`
	SamePage        [][2]string `json:"same_page,omitempty"` // the second word fits on the page of the first and no break is allowed to be forced between them
	PageMarginsBase [4]float64 `json:"page_margins_base,omitempty"` // with page_margins_nth: margins of a page no :nth rule matches
	PageMarginsNth  []NthRule  `json:"page_margins_nth,omitempty"`  // @page :nth(an+b) { margin-<side>: value }, in cascade order
	LegacyAttrs    bool `json:"legacy_attrs,omitempty"` // the document uses presentational attributes
	MarginCounters bool `json:"margin_counters,omitempty"`
	// WordPage: expected 0-based page of marker words, computed by the generator's own greedy
	// model for documents made of fixed-height blocks (reference model)
	WordPage map[string]int `json:"word_page,omitempty"`
	// BlocksFit: no in-flow block may end below the content box / above-footnote limit
	BlocksFit bool `json:"blocks_fit,omitempty"`
	// FirstLetter: ::first-letter is used, so the first letter of a paragraph is drawn on its own
	FirstLetter bool `json:"first_letter,omitempty"`
	// FillPages (with orphans = widows = 1): a page that ends in the middle of a paragraph leaves less than one line unused
	FillPages bool `json:"fill_pages,omitempty"`
	// Paras: the paragraphs (word lists) that orphans/widows apply to, with the values
	Paras   [][]string `json:"paras,omitempty"`
	Orphans int        `json:"orphans,omitempty"`
	Widows  int        `json:"widows,omitempty"`
	// KeepTogether: word groups that must be on one page (break-inside: avoid, fits a page)
	KeepTogether [][]string `json:"keep_together,omitempty"`
	// KeepWithNext: [a, b]: the line of a and the line of b must be on the same page (break-after: avoid)
	KeepWithNext [][2]string `json:"keep_with_next,omitempty"`
	Conserve   bool                `json:"conserve,omitempty"` // C02 word conservation applies
	Geometry   bool                `json:"geometry,omitempty"` // C12 geometry clauses apply
	Group      string              `json:"group,omitempty"`    // shared-* history group
	Cyclic     bool                `json:"cyclic,omitempty"`   // resource graph has a cycle
}

type Scenario struct {
	Name    string               `json:"name"`
	Family  string               `json:"family"`
	Base    string               `json:"base"`
	Main    string               `json:"main"`
	Files   map[string]*SiteFile `json:"files"`
	UserCSS []string             `json:"user_css,omitempty"`
	Engines []string             `json:"engines,omitempty"` // default: pango only
	Expect  Expect               `json:"expect"`
	Dir     string               `json:"-"`
	MainSize int                 `json:"-"`
}

type Corpus struct {
	Dir    string
	List   []*Scenario
	ByName map[string]*Scenario
}

func loadCorpus(dir string) (*Corpus, error) {
	c := &Corpus{Dir: dir, ByName: map[string]*Scenario{}}
	ents, err := os.ReadDir(filepath.Join(dir, "scenarios"))
	if err != nil {
		return nil, err
	}
	for _, e := range ents {
		if !e.IsDir() {
			continue
		}
		sd := filepath.Join(dir, "scenarios", e.Name())
		b, err := os.ReadFile(filepath.Join(sd, "scenario.json"))
		if err != nil {
			return nil, err
		}
		var s Scenario
		if err := json.Unmarshal(b, &s); err != nil {
			return nil, fmt.Errorf("%s: %v", e.Name(), err)
		}
		if s.Name != e.Name() {
			return nil, fmt.Errorf("%s: name mismatch %q", e.Name(), s.Name)
		}
		s.Dir = sd
		if s.Base == "" {
			s.Base = "http://sim.test/" + s.Name + "/"
		}
		if s.Main == "" {
			s.Main = "index.html"
		}
		if fi, err := os.Stat(filepath.Join(sd, s.Main)); err == nil {
			s.MainSize = int(fi.Size())
		} else {
			return nil, err
		}
		for fn, f := range s.Files {
			fi, err := os.Stat(filepath.Join(sd, fn))
			if err != nil {
				return nil, err
			}
			f.Size = int(fi.Size())
		}
		if len(s.Engines) == 0 {
			s.Engines = []string{"pango"}
		}
		c.List = append(c.List, &s)
		c.ByName[s.Name] = &s
	}
	sort.Slice(c.List, func(i, j int) bool { return c.List[i].Name < c.List[j].Name })
	if len(c.List) == 0 {
		return nil, fmt.Errorf("empty corpus in %s", dir)
	}
	return c, nil
}

func (c *Corpus) Family(prefixes ...string) []*Scenario {
	var out []*Scenario
	for _, s := range c.List {
		for _, p := range prefixes {
			if s.Family == p || strings.HasPrefix(s.Name, p+"-") {
				out = append(out, s)
				break
			}
		}
	}
	return out
}

// FileNames returns the site files of a scenario in sorted order.
func (s *Scenario) FileNames() []string {
	var out []string
	for fn := range s.Files {
		out = append(out, fn)
	}
	sort.Strings(out)
	return out
}

// Cfg is the configuration of one render.
// NthRule is one '@page :nth(an+b) { margin-<side>: <value>px }' rule of a scenario.
type NthRule struct {
	A     int     `json:"a"`
	B     int     `json:"b"`
	Side  int     `json:"side"` // 0 top, 1 right, 2 bottom, 3 left
	Value float64 `json:"value"`
}

// matches: some n >= 0 gives a*n+b == i (CSS an+b microsyntax, page index i starts at 1).
func (r NthRule) matches(i int) bool {
	if r.A == 0 {
		return i == r.B
	}
	d := i - r.B
	return d%r.A == 0 && d/r.A >= 0
}

type Cfg struct {
	Engine string
	Hints  bool
	Zoom   float64
	Input  string
	Media  string
	Chunk  uint64
	ViaHTTP bool
	NoUser bool // do not apply the scenario's user stylesheets
	Probes []int // active pages-probes (restart pattern); nil = none (the restart-free twin)
}

// probeCSS is the user stylesheet that turns the literal probes of S into real
// counter(pages) probes.
func probeCSS(active []int) string {
	if len(active) == 0 {
		return ""
	}
	var sel []string
	for _, k := range active {
		sel = append(sel, fmt.Sprintf(".p%d::after", k))
	}
	return strings.Join(sel, ", ") + ` { content: "np" counter(pages) !important }` + "\n"
}

func (c Cfg) String() string {
	s := fmt.Sprintf("%s/h%v/z%g/%s", c.Engine, c.Hints, c.Zoom, c.Input)
	if len(c.Probes) > 0 {
		s += fmt.Sprintf("/probes%v", c.Probes)
	}
	return s
}

// docOps returns the ops of one complete, self-contained render of a scenario.
// prefix distinguishes object ids when several documents live in one task.
func docOps(sc *Scenario, cfg Cfg, prefix string, withLayout bool) []Op {
	eng := cfg.Engine
	if eng == "" {
		eng = "pango"
	}
	ops := []Op{{Op: "fontconfig", ID: prefix + "f", Engine: eng}}
	var cssIDs []string
	if !cfg.NoUser {
		for i, f := range sc.UserCSS {
			id := fmt.Sprintf("%su%d", prefix, i)
			ops = append(ops, Op{Op: "css", ID: id, Scenario: sc.Name, File: f})
			cssIDs = append(cssIDs, id)
		}
	}
	if css := probeCSS(cfg.Probes); css != "" {
		id := prefix + "probes"
		ops = append(ops, Op{Op: "css", ID: id, Text: css})
		cssIDs = append(cssIDs, id)
	}
	ops = append(ops, Op{Op: "html", ID: prefix + "h", Scenario: sc.Name, Input: cfg.Input, Media: cfg.Media, Chunk: cfg.Chunk, ViaHTTP: cfg.ViaHTTP})
	if withLayout {
		ops = append(ops, Op{Op: "layout", ID: prefix + "l", HTML: prefix + "h", CSS: cssIDs, FC: prefix + "f", Hints: cfg.Hints})
	}
	ops = append(ops, Op{Op: "render", ID: prefix + "d", HTML: prefix + "h", CSS: cssIDs, FC: prefix + "f", Hints: cfg.Hints})
	ops = append(ops, Op{Op: "write", ID: prefix + "t", Doc: prefix + "d", Zoom: cfg.Zoom})
	return ops
}

func soloSpec(id string, sc *Scenario, cfg Cfg) *Spec {
	return &Spec{ID: id, Order: OrderPlan{Mode: "canon"}, Tasks: [][]Op{docOps(sc, cfg, "", false)}}
}
