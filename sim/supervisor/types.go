package main

import "encoding/json"

// These mirror sim/worker/spec.go and simrt (same JSON tags).

type OrderPlan struct {
	Mode  string         `json:"mode"`
	Seed  uint64         `json:"seed"`
	Sites []int          `json:"sites,omitempty"`
	Pin   []int          `json:"pin,omitempty"`
	Per   map[int]string `json:"per,omitempty"`
	// Names: replay files carry site names (stable across rebuilds); ids are
	// re-resolved from the current build's site table.
	SiteNames []string          `json:"site_names,omitempty"`
	PinNames  []string          `json:"pin_names,omitempty"`
	PerNames  map[string]string `json:"per_names,omitempty"`
}

type Preempt struct {
	Step uint64 `json:"Step"`
	To   int    `json:"To"`
}

type PreemptW struct {
	Task int `json:"task"`
	K    int `json:"k"`
	To   int `json:"to"`
}

type Spec struct {
	Env []string `json:"env,omitempty"` // environment variables of the fresh worker process that runs this spec (RunFresh only): the process environment is not an input of a render
	Fresh bool `json:"fresh,omitempty"` // run in a worker process that has executed nothing before (and nothing after): package-level state written only once per process is then written in THIS run
	ID      string    `json:"id"`
	Order   OrderPlan `json:"order"`
	Budget  uint64    `json:"budget,omitempty"`
	Faults  []Fault   `json:"faults,omitempty"`
	Shared  []Op      `json:"shared,omitempty"`
	Tasks   [][]Op    `json:"tasks"`
	Preempt []Preempt `json:"preempt,omitempty"`
	PreemptW []PreemptW `json:"preempt_w,omitempty"`
	Free    bool      `json:"free,omitempty"`
	Dump    string    `json:"dump,omitempty"`
	Detail  bool      `json:"detail,omitempty"`
}

type Op struct {
	Op       string   `json:"op"`
	ID       string   `json:"id"`
	Scenario string   `json:"scenario,omitempty"`
	File     string   `json:"file,omitempty"`
	Text     string   `json:"text,omitempty"`
	TextB64  string   `json:"text_b64,omitempty"` // entry: the text when it is not valid UTF-8 (JSON strings cannot carry a sequence cut inside a character)
	Kind     string   `json:"kind,omitempty"`
	Engine   string   `json:"engine,omitempty"`
	Input    string   `json:"input,omitempty"`
	Chunk    uint64   `json:"chunk,omitempty"`
	Media    string   `json:"media,omitempty"`
	ViaHTTP  bool     `json:"via_http,omitempty"`
	HTML     string   `json:"html,omitempty"`
	CSS      []string `json:"css,omitempty"`
	FC       string   `json:"fc,omitempty"`
	Hints    bool     `json:"hints,omitempty"`
	Doc      string   `json:"doc,omitempty"`
	Zoom     float64  `json:"zoom,omitempty"`
}

type Fault struct {
	Op   string `json:"op,omitempty"`
	At   string `json:"at"`
	Kind string `json:"kind"`
	N    int    `json:"n,omitempty"`
	B    int    `json:"b,omitempty"`
	S    string `json:"s,omitempty"`
}

type Violation struct {
	Frame  string `json:"frame,omitempty"`
	Rule   string `json:"rule"`
	Detail string `json:"detail"`
	Page   int    `json:"page"`
}

type TextCall struct {
	Page   int     `json:"page"`
	Seq    int     `json:"seq"`
	Text   string  `json:"text"`
	X      float64 `json:"x"`
	Y      float64 `json:"y"`
	Size   float64 `json:"size"`
	Canvas int     `json:"canvas"`
}

type PageInfo struct {
	Left, Top, Width, Height float64
}

type LineRec struct {
	Y     float64  `json:"y"`
	Words []string `json:"w"`
}

type PageGeom struct {
	W, H           float64
	MT, MR, MB, ML float64
	ContentBottom  float64
	MaxLineBottom  float64
	MaxBlockBottom float64
	FootnoteTop    float64
	FirstWord      string
	PageType       string
}

type OpResult struct {
	Op          string            `json:"op"`
	ID          string            `json:"id"`
	Task        int               `json:"task"`
	Status      string            `json:"status"`
	Err         string            `json:"err,omitempty"`
	Frame       string            `json:"frame,omitempty"`
	Stack       string            `json:"stack,omitempty"`
	Steps       uint64            `json:"steps"`
	Trace       string            `json:"trace,omitempty"`
	Calls       int               `json:"calls,omitempty"`
	Kinds       map[string]int    `json:"kinds,omitempty"`
	NPages      int               `json:"npages,omitempty"`
	Pages       []PageInfo        `json:"pages,omitempty"`
	PageWords   [][]string        `json:"page_words,omitempty"`
	PageLines   [][]LineRec       `json:"page_lines,omitempty"`
	Texts       []TextCall        `json:"texts,omitempty"`
	Violations  []Violation       `json:"violations,omitempty"`
	Anchors     [][]string        `json:"anchors,omitempty"`
	Internal    []string          `json:"internal,omitempty"`
	Bookmarks   []string          `json:"bookmarks,omitempty"`
	Meta        map[string]string `json:"meta,omitempty"`
	Images      []string          `json:"images,omitempty"`
	Attach      []string          `json:"attach,omitempty"`
	Embedded    []string          `json:"embedded,omitempty"`
	LayoutWords [][]string        `json:"layout_words,omitempty"`
	PageGeom    []PageGeom        `json:"page_geom,omitempty"`
}

type FetchRec struct {
	Op      string `json:"op"`
	Seq     int    `json:"seq"`
	URL     string `json:"url"`
	Outcome string `json:"outcome"`
	Len     int    `json:"len"`
}

type SiteStat struct {
	Visits   uint64 `json:"v"`
	Relevant uint64 `json:"r"`
	Permuted uint64 `json:"p"`
	MaxKeys  int    `json:"k"`
}

type Result struct {
	MapConflicts []MapConflict `json:"map_conflicts,omitempty"`
	ID           string            `json:"id"`
	Ops          []OpResult        `json:"ops"`
	Steps        uint64            `json:"steps"`
	EventHash    string            `json:"event_hash"`
	Fetches      []FetchRec        `json:"fetches,omitempty"`
	FaultsFired  map[string]int    `json:"faults_fired,omitempty"`
	Sites        map[int]*SiteStat `json:"sites,omitempty"`
	Unregistered uint64            `json:"unregistered,omitempty"`
	Switches     [][3]uint64       `json:"switches,omitempty"`
	LockOps      uint64            `json:"lock_ops,omitempty"`
	GWrites      map[int]int       `json:"gwrites,omitempty"`
	GWTotal      int               `json:"gw_total,omitempty"`
	FuncsHit     int               `json:"funcs_hit,omitempty"`
	Warnings     int               `json:"warnings"`
	Disk         []string          `json:"disk,omitempty"`
	Fatal        string            `json:"fatal,omitempty"`

	// filled by the pool
	FatalClass string  `json:"fatal_class,omitempty"` // stack-overflow | concurrent-map | data-race | timeout | crash
	Stderr     string  `json:"stderr,omitempty"`
	WallMs     float64 `json:"wall_ms,omitempty"`
}

func (r *Result) op(id string) *OpResult {
	for i := range r.Ops {
		if r.Ops[i].ID == id {
			return &r.Ops[i]
		}
	}
	return nil
}

func (r *Result) taskOp(task int, id string) *OpResult {
	for i := range r.Ops {
		if r.Ops[i].ID == id && r.Ops[i].Task == task {
			return &r.Ops[i]
		}
	}
	return nil
}

func cloneSpec(s *Spec) *Spec {
	b, _ := json.Marshal(s)
	var out Spec
	json.Unmarshal(b, &out)
	return &out
}

// MapConflict mirrors simrt.MapConflict: a map written by two tasks of one run, no lock held.
type MapConflict struct {
	SiteA int `json:"site_a"`
	SiteB int `json:"site_b"`
	TaskA int `json:"task_a"`
	TaskB int `json:"task_b"`
}
