package main

import (
	"bufio"
	"fmt"
	"os"
	"strings"
)

// Finding is one violation of a property, already minimised.
type Finding struct {
	Class    string // violation class: panic | fatal:<class> | budget | maporder | history | interleave | race | monitor:<rule> | words:<kind> | ...
	Scenario string
	Where    string // call site: top webrender frame, range-site name(s), first differing call kind...
	Detail   string
	Oracle   string // which oracle decided
	Spec     *Spec  // minimised spec that violates
	Spec2    *Spec  // reference spec the first one is compared with (if any)
	Expect   string // what replay must observe: a short verdict signature
}

func (f *Finding) Fingerprint() string {
	return fmt.Sprintf("class=%s scenario=%s where=%s", f.Class, f.Scenario, f.Where)
}

type ReplayFile struct {
	Property string `json:"property"`
	Class    string `json:"class"`
	Scenario string `json:"scenario"`
	Where    string `json:"where"`
	Detail   string `json:"detail"`
	Oracle   string `json:"oracle"`
	Seed     uint64 `json:"seed"`
	Tier     string `json:"tier"`
	Expect   string `json:"expect"`
	Spec     *Spec  `json:"spec"`
	Spec2    *Spec  `json:"spec2,omitempty"`
}

// KnownEntry is one line of KNOWN_FINDINGS.txt:
//
//	known: property=C15 class=maporder where=<site> [scenario=<s>] -- free text
//	fixed: property=C15 <commit> <what failed>
//
// "known" entries are genuine defects of the unchanged tree that were recorded
// rather than repaired; a finding matches when property, class and where are
// equal (and scenario, when the entry names one). "fixed" entries are
// documentation only and suppress nothing.
type KnownEntry struct {
	Kind     string // known | fixed
	Prop     string
	Class    string
	Where    string
	Scenario string
	Text     string
	Line     string
}

func (k *KnownEntry) What() string {
	s := fmt.Sprintf("class=%s where=%s", k.Class, k.Where)
	if k.Scenario != "" {
		s += " scenario=" + k.Scenario
	}
	if k.Text != "" {
		s += " -- " + k.Text
	}
	return s
}

type Known struct {
	Entries []*KnownEntry
	prop    string
}

func loadKnown(path string) (*Known, error) {
	k := &Known{}
	f, err := os.Open(path)
	if err != nil {
		if os.IsNotExist(err) {
			return k, nil
		}
		return nil, err
	}
	defer f.Close()
	sc := bufio.NewScanner(f)
	for sc.Scan() {
		line := strings.TrimSpace(sc.Text())
		if line == "" || strings.HasPrefix(line, "#") {
			continue
		}
		e := &KnownEntry{Line: line}
		switch {
		case strings.HasPrefix(line, "known:"):
			e.Kind = "known"
			line = strings.TrimSpace(line[6:])
		case strings.HasPrefix(line, "fixed:"):
			e.Kind = "fixed"
			line = strings.TrimSpace(line[6:])
		default:
			return nil, fmt.Errorf("KNOWN_FINDINGS: unparsable line %q", line)
		}
		if i := strings.Index(line, " -- "); i >= 0 {
			e.Text = strings.TrimSpace(line[i+4:])
			line = line[:i]
		}
		for _, tok := range strings.Fields(line) {
			kv := strings.SplitN(tok, "=", 2)
			if len(kv) != 2 {
				continue
			}
			switch kv[0] {
			case "property":
				e.Prop = kv[1]
			case "class":
				e.Class = kv[1]
			case "where":
				e.Where = kv[1]
			case "scenario":
				e.Scenario = kv[1]
			}
		}
		if e.Prop == "" {
			return nil, fmt.Errorf("KNOWN_FINDINGS: no property in %q", e.Line)
		}
		k.Entries = append(k.Entries, e)
	}
	return k, sc.Err()
}

func (k *Known) ForProp(prop string) []*KnownEntry {
	var out []*KnownEntry
	for _, e := range k.Entries {
		if e.Prop == prop {
			out = append(out, e)
		}
	}
	return out
}

// Match returns the known (never a fixed) entry that lists this finding.
func (k *Known) Match(f *Finding) *KnownEntry {
	for _, e := range k.Entries {
		if e.Kind != "known" || e.Prop != k.prop {
			continue
		}
		if e.Class != f.Class || e.Where != f.Where {
			continue
		}
		if e.Scenario != "" && e.Scenario != f.Scenario {
			continue
		}
		return e
	}
	return nil
}

// PinnedSites returns the range-site names that known map-order findings of this
// property name: they are pinned to canonical order in the general exploration so
// that every OTHER site keeps being permuted on the same scenarios (DESIGN §11).
func (k *Known) PinnedSites(prop string) []string {
	var out []string
	for _, e := range k.Entries {
		if e.Kind == "known" && e.Prop == prop && e.Class == "maporder" {
			out = append(out, strings.Split(e.Where, "+")...)
		}
	}
	return out
}
