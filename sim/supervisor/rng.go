package main

// SplitMix64: the only PRNG of the supervisor. Every choice of a check derives
// from VERIF_SEED through named streams.
type Rng uint64

func (s *Rng) Next() uint64 {
	*s += 0x9e3779b97f4a7c15
	z := uint64(*s)
	z = (z ^ (z >> 30)) * 0xbf58476d1ce4e5b9
	z = (z ^ (z >> 27)) * 0x94d049bb133111eb
	return z ^ (z >> 31)
}

func (s *Rng) Intn(n int) int {
	if n <= 1 {
		return 0
	}
	return int(s.Next() % uint64(n))
}

func (s *Rng) Float() float64 { return float64(s.Next()>>11) / (1 << 53) }

func (s *Rng) Bool() bool { return s.Next()&1 == 1 }

func stream(seed uint64, label string) *Rng {
	h := uint64(1469598103934665603) ^ seed
	for i := 0; i < len(label); i++ {
		h ^= uint64(label[i])
		h *= 1099511628211
	}
	r := Rng(h)
	r.Next()
	return &r
}

func shuffleInts(r *Rng, a []int) {
	for i := len(a) - 1; i > 0; i-- {
		j := r.Intn(i + 1)
		a[i], a[j] = a[j], a[i]
	}
}
