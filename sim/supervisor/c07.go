package main

// C07 — parsers of document-supplied text never crash: short reads (every
// truncation point) and stored-byte corruption of every fetched text resource
// (DESIGN.md §5). Parse stage only, through the real entry points and the seam.

import (
	"unicode/utf8"
	"encoding/base64"
	"fmt"
	"os"
	"path/filepath"
	"regexp"
	"sort"
	"strings"
	"time"
)

// the adversarial substitution alphabet
var adversarial = []byte("\\-+.eE0(){}[]\"'/*%#@:;,<>&=!uU \n\x00\x80\xff")

type parseTarget struct {
	sc   *Scenario
	file string
	size int
	data []byte
}

func textResource(sc *Scenario, fn string) bool {
	if fn == sc.Main {
		return true
	}
	sf := sc.Files[fn]
	if sf == nil {
		return false
	}
	switch sf.Kind {
	case "css", "svg", "html":
		return true
	}
	return strings.HasSuffix(fn, ".css") || strings.HasSuffix(fn, ".svg")
}

func parseOps(sc *Scenario, hints bool) []Op {
	ops := []Op{{Op: "fontconfig", ID: "f", Engine: "pango"}}
	var cssIDs []string
	for i, f := range sc.UserCSS {
		id := fmt.Sprintf("u%d", i)
		ops = append(ops, Op{Op: "css", ID: id, Scenario: sc.Name, File: f})
		cssIDs = append(cssIDs, id)
	}
	ops = append(ops, Op{Op: "html", ID: "h", Scenario: sc.Name})
	ops = append(ops, Op{Op: "parse", ID: "p", HTML: "h", CSS: cssIDs, FC: "f", Hints: hints})
	return ops
}

func checkC07(c *Ctx) {
	c.Ev.Level = "fault_enumeration"
	c.Ev.Rule = "one case = the parse stage (tree.NewHTML -> GetAllComputedStyles -> BuildFormattingStructure, incl. <link>/@import/style attributes/inline SVG/images/data: URIs through the fetch seam) of a corpus scenario with ONE stored-byte fault on one text resource: truncation at offset k (short read) or substitution of the byte at offset k by a byte of the adversarial alphabet; plus seeded 2-3 fault plans. thorough enumerates every truncation offset of every text resource (exhaustive for that fault kind) and samples substitutions; quick samples both. non-trivial = the fault fired (the resource was fetched); distinct = distinct (scenario, resource, kind, offset, byte). Oracle: returns (error value / ignored construct allowed), no panic, no fatal error, within the step budget"
	c.Ev.Assume = []string{"decides the neighbourhood of corpus resources that truncation and single-byte substitution reach, not 'all byte strings'", "parse stage only, so that a verdict is attributable to a parser (layout crashes are C01's)"}
	rng := stream(c.Seed, "c07")
	var targets []parseTarget
	total := 0
	for _, sc := range c.Corpus.List {
		names := append([]string{sc.Main}, sc.FileNames()...)
		seen := map[string]bool{}
		for _, fn := range names {
			if seen[fn] || !textResource(sc, fn) {
				continue
			}
			seen[fn] = true
			b, err := os.ReadFile(filepath.Join(sc.Dir, fn))
			if err != nil {
				c.Infra("corpus file %s/%s: %v", sc.Name, fn, err)
				continue
			}
			targets = append(targets, parseTarget{sc, fn, len(b), b})
			total += len(b)
		}
		// user stylesheets are parsed through NewCSSDefault: faulted via a css op with inline text
	}
	c.Ev.Extra["text_resources"] = len(targets)
	c.Ev.Extra["text_bytes"] = total

	type pcase struct {
		spec *Spec
		sig  string
	}
	var cases []pcase
	mk := func(t parseTarget, faults []Fault, hints bool, label string) {
		sp := &Spec{ID: fmt.Sprintf("C07/%s/%s/%s", t.sc.Name, t.file, label), Order: OrderPlan{Mode: "canon"}, Faults: faults, Tasks: [][]Op{parseOps(t.sc, hints)}, Budget: 400000000}
		cases = append(cases, pcase{sp, sp.ID})
	}
	// fault-free baseline of every scenario
	for _, sc := range c.Corpus.List {
		mk(parseTarget{sc: sc, file: sc.Main}, nil, false, "baseline")
		mk(parseTarget{sc: sc, file: sc.Main}, nil, true, "baseline-hints")
	}
	if c.Tier == "thorough" {
		// every truncation offset of every text resource
		for _, t := range targets {
			for k := 0; k < t.size; k++ {
				mk(t, []Fault{{At: "url:" + t.file, Kind: "trunc", N: k}}, false, fmt.Sprintf("trunc%d", k))
			}
		}
		c.Ev.Extra["truncations_enumerated_exhaustively"] = true
	} else {
		// quick: every truncation that ends the text INSIDE or right after a token of
		// the kind EOF-recovery bugs live in (after + - \\ ( " ' / * # @ . : e E u U and
		// digits followed by a letter), plus a seeded sample of the other offsets
		interesting := func(b byte) bool { return strings.IndexByte("+-\\(\"'/*#@.:eEuU%!,=<&", b) >= 0 }
		nInteresting := 0
		for _, t := range targets {
			seen := map[int]bool{}
			for k := 1; k <= t.size; k++ {
				if interesting(t.data[k-1]) {
					seen[k] = true
				}
			}
			// keep the systematic part bounded for big resources
			var ks []int
			for k := range seen {
				ks = append(ks, k)
			}
			sort.Ints(ks)
			if len(ks) > 400 {
				shuffleInts(rng, ks)
				ks = ks[:400]
				sort.Ints(ks)
			}
			nInteresting += len(ks)
			n := 40
			if t.size < n {
				n = t.size
			}
			for i := 0; i < n; i++ {
				k := rng.Intn(t.size)
				if !seen[k] {
					seen[k] = true
					ks = append(ks, k)
				}
			}
			for _, k := range ks {
				mk(t, []Fault{{At: "url:" + t.file, Kind: "trunc", N: k}}, false, fmt.Sprintf("trunc%d", k))
			}
		}
		c.Ev.Extra["truncations_at_token_boundaries"] = nInteresting
	}
	// substitutions: sampled (quick: ~25 per resource; thorough: budgeted)
	nsub := 150
	if c.Tier == "thorough" {
		nsub = 4000
	}
	for _, t := range targets {
		if t.size == 0 {
			continue
		}
		for i := 0; i < nsub; i++ {
			k := rng.Intn(t.size)
			b := adversarial[rng.Intn(len(adversarial))]
			if t.data[k] == b {
				continue
			}
			mk(t, []Fault{{At: "url:" + t.file, Kind: "flip", N: k, B: int(b)}}, rng.Intn(8) == 0, fmt.Sprintf("flip%d-%02x", k, b))
		}
	}
	// multi-fault plans
	nmulti := 20
	if c.Tier == "thorough" {
		nmulti = 300
	}
	for _, t := range targets {
		if t.size < 4 {
			continue
		}
		for i := 0; i < nmulti; i++ {
			var faults []Fault
			// the fetcher applies the first matching fault only: combine through distinct resources or flip+trunc on the same one is not expressible; use other resources of the scenario
			faults = append(faults, Fault{At: "url:" + t.file, Kind: "flip", N: rng.Intn(t.size), B: int(adversarial[rng.Intn(len(adversarial))])})
			for _, o := range targets {
				if o.sc == t.sc && o.file != t.file && o.size > 0 && rng.Intn(2) == 0 {
					faults = append(faults, Fault{At: "url:" + o.file, Kind: []string{"trunc", "flip"}[rng.Intn(2)], N: rng.Intn(o.size), B: int(adversarial[rng.Intn(len(adversarial))])})
				}
			}
			mk(t, faults, false, fmt.Sprintf("multi%d", i))
		}
	}
	c.Logf("C07: %d text resources (%d bytes), %d cases", len(targets), total, len(cases))
	const chunk = 4096
	ran := 0
	for off := 0; off < len(cases); off += chunk {
		if c.TimeLeft() < 0 && off > 0 {
			c.Ev.Extra["cases_skipped_for_time"] = len(cases) - off
			c.Ev.Extra["truncations_enumerated_exhaustively"] = false
			break
		}
		end := off + chunk
		if end > len(cases) {
			end = len(cases)
		}
		var specs []*Spec
		for _, pc := range cases[off:end] {
			specs = append(specs, pc.spec)
		}
		results := c.runBatch(specs)
		for i, r := range results {
			ran++
			pc := cases[off+i]
			fired := 0
			for _, v := range r.FaultsFired {
				fired += v
			}
			if fired > 0 {
				c.Ev.Distinct(pc.sig)
			}
			if len(c.Ev.Samples) < 8 && fired > 0 && i%97 == 0 {
				c.Ev.Sample(map[string]interface{}{"spec": pc.spec.ID, "faults": pc.spec.Faults})
			}
			if cl, where, detail := crashOf(r); cl != "" {
				sc := c.Corpus.ByName[strings.Split(pc.spec.ID, "/")[1]]
				dup := false
				for _, f := range c.Findings {
					if f.Class == cl && f.Where == where {
						dup = true
					}
				}
				if dup {
					c.Ev.Probes["crashing_cases_same_site"]++
					continue
				}
				fc := &faultCase{sc: sc, spec: pc.spec}
				c.Findings = append(c.Findings, c.minimizeCrash(fc, cl, where, detail))
			}
		}
	}
	c.stageEntries(rng)
	c.Ev.Exhaustive = false
	c.Ev.Extra["cases_run"] = ran
	var kinds []string
	for k := range c.Ev.FaultsFired {
		kinds = append(kinds, k)
	}
	sort.Strings(kinds)
}


// ---- direct entry points (C07's observe_at): selector.ParseGroup, tree.NewCSSDefault,
// validation.PreprocessDeclarations / descriptors, parser.Tokenize & co, svg.Parse,
// utils.DefaultUrlFetcher(data:), parser.ParseColorString, fed with text taken from the
// corpus resources and cut / corrupted like a fetched resource would be.

type entryText struct {
	kind, text, from string
}

var (
	reRule     = regexp.MustCompile(`([^{}@;]+)\{([^{}]*)\}`)
	reAtBlock  = regexp.MustCompile(`@(font-face|counter-style[^{]*|page[^{]*)\{([^{}]*)\}`)
	reStyleAt  = regexp.MustCompile(`style="([^"]*)"`)
	reStyleEl  = regexp.MustCompile(`(?s)<style[^>]*>(.*?)</style>`)
	reSvgEl    = regexp.MustCompile(`(?s)<svg[ >].*?</svg>`)
	reDataURL  = regexp.MustCompile(`data:[^"')\s>]+`)
	reColor    = regexp.MustCompile(`#[0-9a-fA-F]{3,8}\b|rgba?\([^)]*\)|hsla?\([^)]*\)`)
	reMediaImp = regexp.MustCompile(`@(media|import|supports|namespace)[^{;]*[{;]`)
)

func (c *Ctx) entryTexts() []entryText {
	seen := map[string]bool{}
	var out []entryText
	add := func(kind, text, from string) {
		text = strings.TrimSpace(text)
		if text == "" || len(text) > 4000 {
			return
		}
		k := kind + "\x00" + text
		if seen[k] {
			return
		}
		seen[k] = true
		out = append(out, entryText{kind, text, from})
	}
	css := func(txt, from string) {
		add("stylesheet", txt, from)
		add("tokens", txt, from)
		for _, m := range reRule.FindAllStringSubmatch(txt, -1) {
			add("selector", m[1], from)
			add("declarations", m[2], from)
			add("tokens", m[2], from)
		}
		for _, m := range reAtBlock.FindAllStringSubmatch(txt, -1) {
			add("fontface", m[2], from)
		}
		for _, m := range reMediaImp.FindAllString(txt, -1) {
			add("stylesheet", m+" p { color: red } }", from)
		}
		for _, m := range reColor.FindAllString(txt, -1) {
			add("color", m, from)
		}
	}
	for _, sc := range c.Corpus.List {
		names := append([]string{sc.Main}, sc.FileNames()...)
		for _, fn := range names {
			b, err := os.ReadFile(filepath.Join(sc.Dir, fn))
			if err != nil {
				continue
			}
			txt := string(b)
			from := sc.Name + "/" + fn
			switch {
			case strings.HasSuffix(fn, ".css"):
				css(txt, from)
			case strings.HasSuffix(fn, ".svg"):
				add("svg", txt, from)
			case strings.HasSuffix(fn, ".html"):
				for _, m := range reStyleEl.FindAllStringSubmatch(txt, -1) {
					css(m[1], from)
				}
				for _, m := range reStyleAt.FindAllStringSubmatch(txt, -1) {
					add("declarations", m[1], from)
				}
				for _, m := range reSvgEl.FindAllString(txt, -1) {
					add("svg", m, from)
				}
			}
			for _, m := range reDataURL.FindAllString(txt, -1) {
				add("dataurl", m, from)
			}
		}
		for _, fn := range sc.UserCSS {
			if b, err := os.ReadFile(filepath.Join(sc.Dir, fn)); err == nil {
				css(string(b), sc.Name+"/"+fn)
			}
		}
	}
	sort.Slice(out, func(i, j int) bool {
		if out[i].kind != out[j].kind {
			return out[i].kind < out[j].kind
		}
		return out[i].text < out[j].text
	})
	return out
}

func (c *Ctx) stageEntries(rng *Rng) {
	texts := c.entryTexts()
	byKind := map[string]int{}
	type ecase struct {
		kind, text string
	}
	var all []ecase
	interesting := func(b byte) bool { return strings.IndexByte("+-\\(\"'/*#@.:eEuU%!,=<&[]{}~|^$>", b) >= 0 }
	for _, t := range texts {
		byKind[t.kind]++
		all = append(all, ecase{t.kind, t.text})
		big := t.kind == "stylesheet" || t.kind == "svg" || (t.kind == "tokens" && len(t.text) > 400)
		// truncations
		for k := 0; k < len(t.text); k++ {
			keep := c.Tier == "thorough" && !big
			if !keep && k > 0 && interesting(t.text[k-1]) && (!big || rng.Intn(4) == 0) {
				keep = true
			}
			if !keep && t.text[k]&0xC0 == 0x80 {
				keep = true // a cut inside a multi-byte character
			}
			if !keep && rng.Intn(12) == 0 {
				keep = true
			}
			if keep {
				all = append(all, ecase{t.kind, t.text[:k]})
			}
		}
		// substitutions
		n := 6
		if c.Tier == "thorough" {
			n = 60
		}
		if big {
			n *= 3
		}
		for i := 0; i < n && len(t.text) > 0; i++ {
			k := rng.Intn(len(t.text))
			b := []byte(t.text)
			b[k] = adversarial[rng.Intn(len(adversarial))]
			all = append(all, ecase{t.kind, string(b)})
		}
	}
	c.Ev.Extra["entry_point_texts"] = byKind
	c.Ev.Extra["entry_point_cases"] = len(all)
	// batches of ops per spec
	const per = 150
	var specs []*Spec
	for off := 0; off < len(all); off += per {
		end := off + per
		if end > len(all) {
			end = len(all)
		}
		sp := &Spec{ID: fmt.Sprintf("C07/entry/%d", off), Order: OrderPlan{Mode: "canon"}, Budget: 2000000000}
		var ops []Op
		for i, e := range all[off:end] {
			o := Op{Op: "entry", ID: fmt.Sprintf("e%d", off+i), Kind: e.kind, Text: e.text}
			if !utf8.ValidString(e.text) {
				o.Text, o.TextB64 = "", base64.StdEncoding.EncodeToString([]byte(e.text))
			}
			ops = append(ops, o)
		}
		sp.Tasks = [][]Op{ops}
		specs = append(specs, sp)
	}
	c.Logf("C07 entry points: %d texts %v, %d cases in %d batches", len(texts), byKind, len(all), len(specs))
	report := func(sp *Spec, cl, where, detail string, e Op) {
		for _, f := range c.Findings {
			if f.Class == cl && f.Where == where {
				c.Ev.Probes["crashing_cases_same_site"]++
				return
			}
		}
		one := &Spec{ID: sp.ID + "/" + e.ID, Order: OrderPlan{Mode: "canon"}, Budget: 2000000000, Tasks: [][]Op{{e}}}
		c.Findings = append(c.Findings, &Finding{Class: cl, Scenario: "entry:" + e.Kind, Where: where,
			Detail: fmt.Sprintf("entry point %s on %q: %s", e.Kind, clip(e.Text+e.TextB64, 300), detail), Oracle: "parser entry point returns (error / nil allowed)", Spec: one, Expect: cl + "@" + where})
	}
	const chunk = 512
	for off := 0; off < len(specs); off += chunk {
		if c.TimeLeft() < -60*time.Second && off > 0 {
			c.Ev.Extra["entry_batches_skipped_for_time"] = len(specs) - off
			break
		}
		end := off + chunk
		if end > len(specs) {
			end = len(specs)
		}
		results := c.Pool.Run(specs[off:end], nil)
		for i, r := range results {
			sp := specs[off+i]
			c.Ev.Evals += len(sp.Tasks[0])
			for _, o := range sp.Tasks[0] {
				c.Ev.Distinct("entry|" + o.Kind + "|" + o.Text + o.TextB64)
			}
			if r.Fatal != "" {
				// find the culprit(s): run each op of the batch alone
				for _, e := range sp.Tasks[0] {
					one := &Spec{ID: sp.ID + "/" + e.ID, Order: OrderPlan{Mode: "canon"}, Budget: 2000000000, Tasks: [][]Op{{e}}}
					r1 := c.Pool.RunFresh(one)
					if cl, wh, de := crashOf(r1); cl != "" {
						report(sp, cl, wh, de, e)
					}
				}
				continue
			}
			for j := range r.Ops {
				o := &r.Ops[j]
				if int(o.Steps) > c.Ev.Probes["entry_op_max_steps"] {
					c.Ev.Probes["entry_op_max_steps"] = int(o.Steps)
				}
				if o.Status == "panic" || o.Status == "budget" {
					var e Op
					for _, x := range sp.Tasks[0] {
						if x.ID == o.ID {
							e = x
						}
					}
					report(sp, o.Status, o.Frame, clip(o.Err, 200), e)
				}
			}
		}
	}
}
