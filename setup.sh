#!/bin/bash
# Builds the framework's own tools from files on disk only (offline).
export GOFLAGS=-mod=mod GOPROXY=off GOSUMDB=off GOTOOLCHAIN=local
D=$(cd "$(dirname "$0")" && pwd)
mkdir -p "$D/bin" "$D/evidence" "$D/replays" || exit 2
(cd "$D/tools/rewriter" && go build -o "$D/bin/rewriter" .) || exit 2
(cd "$D/sim/supervisor" && go build -o "$D/bin/verif" .) || exit 2
echo "setup ok"
