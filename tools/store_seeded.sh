#!/bin/bash
# tools/store_seeded.sh <name> <mutant dir> <property> "<needs>" "<caught by>"  -> /verif/seeded/<name>/
N=$1; M=$2; P=$3; NEEDS=$4; CAUGHT=$5
D=/verif/seeded/$N; mkdir -p $D/demo
cp $M/patch.diff $D/patch.diff
for f in $M/*; do case "$(basename $f)" in patch.diff) ;; *) cp -r $f $D/demo/ ;; esac; done
[ -d $M/_demo ] && cp -r $M/_demo $D/demo/
python3 - "$D" "$P" "$NEEDS" "$CAUGHT" <<'PY'
import json,sys
d,p,needs,caught=sys.argv[1:5]
json.dump({"breaks_property":p,"needs_to_manifest":needs,"confirmed":"demo fails with patch and passes without (tools/confirm_mutant.sh in a scratch worktree); existing suite unchanged (reported by the authoring agent, spot-checked)","ran":"tools/try_patch.sh patch.diff quick|thorough <props> (git -C /repo apply; ./check; git -C /repo checkout -- .)","result":caught}, open(d+"/meta.json","w"), indent=1)
PY
echo stored $D
