#!/bin/bash
# tools/run_seeded.sh [tier]  : apply every seeded change in turn, run the check of the property it breaks
# (quick by default), undo it, and print caught / MISSED. /repo must be clean.
TIER=${1:-quick}
cd /verif
for d in seeded/*/; do
  n=$(basename $d); p=$(python3 -c "import json;print(json.load(open('$d/meta.json'))['breaks_property'])")
  out=$(tools/try_patch.sh $d/patch.diff $TIER $p 2>&1)
  if echo "$out" | grep -q "exit=1"; then echo "caught  $n ($p): $(echo "$out" | grep -m1 'class=' | cut -c1-120)"; else echo "MISSED  $n ($p): $(echo "$out" | grep -m1 'exit=' )"; fi
done
