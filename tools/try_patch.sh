#!/bin/bash
# tools/try_patch.sh <patch.diff> <tier> <prop>...   apply a seeded change to /repo, run checks, undo it.
export VERIF_EVIDENCE_DIR=${VERIF_EVIDENCE_DIR:-/tmp/verif-evidence-patched}
P=$(readlink -f "$1"); TIER=$2; shift 2
cd /verif
git -C /repo diff --quiet || { echo "/repo has uncommitted changes"; exit 2; }
git -C /repo apply "$P" || { echo "patch does not apply"; exit 2; }
trap 'git -C /repo checkout -- . ; git -C /repo clean -fdq' EXIT
for p in "$@"; do
  S=$(date +%s)
  ./check $p $TIER > /tmp/try_$p.log 2>&1; rc=$?
  E=$(( $(date +%s) - S ))
  echo "== $p $TIER exit=$rc (${E}s)"; grep -E "^VIOLATION|^KNOWN|^  class|INFRA" /tmp/try_$p.log | cut -c1-300 | head -8
done
