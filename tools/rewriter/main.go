// rewriter instruments a SCRATCH COPY of benoitkugler/webrender in place so that
// every source of nondeterminism the properties depend on sits behind a seam the
// simulator owns (DESIGN.md §2.2-2.4):
//
//   - every range-over-map      -> range over simrt.Keys(m, site)   (map-order seam)
//   - m[k] = v on map types that are ranged somewhere and whose key holds a pointer
//     -> followed by simrt.Touch(k)  (deterministic canonical order for pointer keys)
//   - first statement of every func / func literal -> simrt.Y(site)  (step + yield)
//   - sync.Mutex / RWMutex Lock/Unlock/RLock/RUnlock -> simrt.Lock/Unlock wrappers
//   - os.ReadFile -> simrt.ReadFile                                  (disk seam)
//   - go statements, select, time.Now, math/rand, runtime.Gosched are REPORTED
//     (uncontrolled.txt): they are sources the simulator does not own.
//
// It never runs on /repo itself. Usage: rewriter <scratch copy of webrender> <harness module dir>
package main

import (
	"bytes"
	"fmt"
	"go/ast"
	"go/token"
	"go/types"
	"os"
	"path/filepath"
	"sort"
	"strings"

	"golang.org/x/tools/go/packages"
)

const simPath = "github.com/benoitkugler/webrender/verifsim/simrt"

type edit struct {
	pos, end int // byte offsets; end == pos for pure insertion
	text     string
	prio     int
}

func hasPointer(t types.Type, seen map[types.Type]bool) bool {
	if seen[t] {
		return false
	}
	seen[t] = true
	switch u := t.Underlying().(type) {
	case *types.Pointer, *types.Interface, *types.Chan, *types.Signature, *types.Map, *types.Slice:
		return true
	case *types.Struct:
		for i := 0; i < u.NumFields(); i++ {
			if hasPointer(u.Field(i).Type(), seen) {
				return true
			}
		}
	case *types.Array:
		return hasPointer(u.Elem(), seen)
	case *types.Basic:
		return u.Kind() == types.UnsafePointer
	}
	return false
}

func isBlank(e ast.Expr) bool {
	if e == nil {
		return true
	}
	id, ok := e.(*ast.Ident)
	return ok && id.Name == "_"
}

// rootIdent strips selectors, indexing, dereferences and parentheses from an
// assignable expression and returns the identifier it is rooted in.
func rootIdent(e ast.Expr) *ast.Ident {
	for {
		switch x := e.(type) {
		case *ast.Ident:
			return x
		case *ast.SelectorExpr:
			e = x.X
		case *ast.IndexExpr:
			e = x.X
		case *ast.StarExpr:
			e = x.X
		case *ast.ParenExpr:
			e = x.X
		case *ast.SliceExpr:
			e = x.X
		default:
			return nil
		}
	}
}

// pureExpr: an expression that can be evaluated a second time without side effects
// (identifiers, selectors, dereferences, indexing by such expressions or literals).
func pureExpr(e ast.Expr) bool {
	switch x := e.(type) {
	case *ast.Ident, *ast.BasicLit:
		return true
	case *ast.SelectorExpr:
		return pureExpr(x.X)
	case *ast.StarExpr:
		return pureExpr(x.X)
	case *ast.ParenExpr:
		return pureExpr(x.X)
	case *ast.IndexExpr:
		return pureExpr(x.X) && pureExpr(x.Index)
	case *ast.BinaryExpr:
		return pureExpr(x.X) && pureExpr(x.Y)
	case *ast.UnaryExpr:
		return x.Op != token.ARROW && x.Op != token.AND && pureExpr(x.X)
	}
	return false
}

// trackedDir: packages whose objects are inputs or caches that renders may share (parsed
// stylesheets, selectors, computed values, text and image helpers): writes through pointers,
// into slices and into struct fields are recorded there too. The layout, box and drawing
// packages write only objects of their own render, millions of times.
func trackedDir(relFile string) bool {
	for _, d := range []string{"css/", "html/tree/", "text/", "svg/", "images/", "utils/", "matrix/"} {
		if strings.HasPrefix(relFile, d) {
			return true
		}
	}
	return false
}

// gvarID numbers the package-level variables written outside init() (package path + name).
var gvarIDs = map[string]int{}

func gvarID(v *types.Var) int {
	k := v.Name()
	if v.Pkg() != nil {
		k = v.Pkg().Path() + "." + v.Name()
	}
	if id, ok := gvarIDs[k]; ok {
		return id
	}
	gvarIDs[k] = len(gvarIDs) + 1
	return gvarIDs[k]
}

func isMutex(t types.Type) bool {
	if p, ok := t.(*types.Pointer); ok {
		t = p.Elem()
	}
	n, ok := t.(*types.Named)
	if !ok || n.Obj().Pkg() == nil {
		return false
	}
	return n.Obj().Pkg().Path() == "sync" && (n.Obj().Name() == "Mutex" || n.Obj().Name() == "RWMutex")
}

func main() {
	if len(os.Args) != 3 {
		fmt.Fprintln(os.Stderr, "usage: rewriter <scratch copy of webrender> <harness module dir (replace => the copy)>")
		os.Exit(2)
	}
	dir, err := filepath.Abs(os.Args[1])
	if err != nil {
		panic(err)
	}
	harness, err := filepath.Abs(os.Args[2])
	if err != nil {
		panic(err)
	}
	if dir == "/repo" || strings.HasPrefix(dir, "/repo/") {
		fmt.Fprintln(os.Stderr, "rewriter: refusing to run on /repo")
		os.Exit(2)
	}
	// Loaded THROUGH the harness module, so that the go command never treats the
	// copy as main module (it would rewrite its go.mod "go 1.19" line and with it
	// the loop-variable semantics).
	cfg := &packages.Config{Mode: packages.LoadAllSyntax, Dir: harness, Tests: false}
	all, err := packages.Load(cfg, "github.com/benoitkugler/webrender/...")
	var pkgs []*packages.Package
	for _, p := range all {
		if strings.HasPrefix(p.PkgPath, "github.com/benoitkugler/webrender") {
			pkgs = append(pkgs, p)
		}
	}
	if err != nil {
		fmt.Fprintln(os.Stderr, "rewriter: load:", err)
		os.Exit(2)
	}
	if packages.PrintErrors(pkgs) > 0 {
		os.Exit(2)
	}
	sort.Slice(pkgs, func(i, j int) bool { return pkgs[i].PkgPath < pkgs[j].PkgPath })

	skipPkg := func(p *packages.Package) bool {
		return strings.Contains(p.PkgPath, "/verifsim") || strings.HasSuffix(p.PkgPath, "/gen") ||
			strings.Contains(p.PkgPath, "/testutils")
	}

	// pass 1: map types (by string) that are ranged and whose key holds a pointer
	ranged := map[string]bool{}
	for _, p := range pkgs {
		if skipPkg(p) {
			continue
		}
		for _, f := range p.Syntax {
			ast.Inspect(f, func(n ast.Node) bool {
				if rs, ok := n.(*ast.RangeStmt); ok {
					if t := p.TypesInfo.TypeOf(rs.X); t != nil {
						if m, ok := t.Underlying().(*types.Map); ok && hasPointer(m.Key(), map[types.Type]bool{}) {
							ranged[types.TypeString(m, nil)] = true
						}
					}
				}
				return true
			})
		}
	}

	var siteTable, uncontrolled, skippedTouch []string
	nRange, nTouch, nY, nLock, nRead, nGW, nMW, nPW := 0, 0, 0, 0, 0, 0, 0, 0
	siteID := 0
	rel := func(fn string) string { return strings.TrimPrefix(fn, dir+"/") }

	for _, p := range pkgs {
		if skipPkg(p) {
			continue
		}
		files := append([]*ast.File(nil), p.Syntax...)
		sort.Slice(files, func(i, j int) bool {
			return p.Fset.File(files[i].Pos()).Name() < p.Fset.File(files[j].Pos()).Name()
		})
		for _, f := range files {
			tf := p.Fset.File(f.Pos())
			fn := tf.Name()
			if strings.HasSuffix(fn, "_test.go") {
				continue
			}
			src, err := os.ReadFile(fn)
			if err != nil {
				panic(err)
			}
			off := func(pos token.Pos) int { return tf.Offset(pos) }
			text := func(n ast.Node) string { return string(src[off(n.Pos()):off(n.End())]) }
			var edits []edit
			var stack []ast.Node
			var funcStack []string
			rangeInFunc := map[string]int{}
			curFunc := func() string {
				if len(funcStack) == 0 {
					return "<pkg>"
				}
				return funcStack[0]
			}
			report := func(n ast.Node, what string) {
				uncontrolled = append(uncontrolled, fmt.Sprintf("%s:%d\t%s\t%s", rel(fn), tf.Line(n.Pos()), curFunc(), what))
			}
			ast.Inspect(f, func(n ast.Node) bool {
				if n == nil {
					top := stack[len(stack)-1]
					stack = stack[:len(stack)-1]
					if _, ok := top.(*ast.FuncDecl); ok {
						funcStack = funcStack[:len(funcStack)-1]
					}
					return true
				}
				var parent ast.Node
				if len(stack) > 0 {
					parent = stack[len(stack)-1]
				}
				stack = append(stack, n)
				switch n := n.(type) {
				case *ast.FuncDecl:
					name := n.Name.Name
					if n.Recv != nil && len(n.Recv.List) > 0 {
						rt := text(n.Recv.List[0].Type)
						name = strings.TrimPrefix(rt, "*") + "." + name
					}
					funcStack = append(funcStack, name)
					if n.Body != nil {
						siteID++
						edits = append(edits, edit{pos: off(n.Body.Lbrace) + 1, end: off(n.Body.Lbrace) + 1, text: fmt.Sprintf(" simrt.Y(%d);", siteID)})
						siteTable = append(siteTable, fmt.Sprintf("%d\tfunc\t%s\t%s\t%d", siteID, rel(fn), name, tf.Line(n.Pos())))
						nY++
					}
				case *ast.FuncLit:
					siteID++
					edits = append(edits, edit{pos: off(n.Body.Lbrace) + 1, end: off(n.Body.Lbrace) + 1, text: fmt.Sprintf(" simrt.Y(%d);", siteID)})
					siteTable = append(siteTable, fmt.Sprintf("%d\tfunclit\t%s\t%s\t%d", siteID, rel(fn), curFunc(), tf.Line(n.Pos())))
					nY++
				case *ast.GoStmt:
					report(n, "go statement")
				case *ast.SelectStmt:
					report(n, "select")
				case *ast.CallExpr:
					if sel, ok := n.Fun.(*ast.SelectorExpr); ok {
						// package-qualified calls
						if id, ok := sel.X.(*ast.Ident); ok {
							if pn, ok := p.TypesInfo.Uses[id].(*types.PkgName); ok {
								ip := pn.Imported().Path()
								switch {
								case ip == "os" && sel.Sel.Name == "ReadFile":
									edits = append(edits, edit{pos: off(sel.Pos()), end: off(sel.End()), text: "simrt.ReadFile"})
									edits = append(edits, edit{pos: len(src), end: len(src), text: "\nvar _ = " + id.Name + ".ReadFile\n", prio: 8})
									nRead++
								case ip == "time" && (sel.Sel.Name == "Now" || sel.Sel.Name == "Since" || sel.Sel.Name == "Sleep" || sel.Sel.Name == "After" || sel.Sel.Name == "NewTimer" || sel.Sel.Name == "Tick" || sel.Sel.Name == "AfterFunc"):
									report(n, "time."+sel.Sel.Name)
								case ip == "math/rand" || ip == "math/rand/v2" || ip == "crypto/rand":
									report(n, ip+"."+sel.Sel.Name)
								case ip == "runtime" && (sel.Sel.Name == "Gosched" || sel.Sel.Name == "NumGoroutine"):
									report(n, "runtime."+sel.Sel.Name)
								}
								break
							}
						}
						// mutex methods
						switch sel.Sel.Name {
						case "Lock", "Unlock", "RLock", "RUnlock":
							if t := p.TypesInfo.TypeOf(sel.X); t != nil && isMutex(t) && len(n.Args) == 0 {
								recv := text(sel.X)
								if _, isPtr := t.(*types.Pointer); !isPtr {
									recv = "&" + recv
								}
								fnName := map[string]string{"Lock": "Lock", "Unlock": "Unlock", "RLock": "RLock", "RUnlock": "RUnlock"}[sel.Sel.Name]
								edits = append(edits, edit{pos: off(n.Pos()), end: off(n.End()), text: fmt.Sprintf("simrt.%s(%s)", fnName, recv)})
								nLock++
							}
						}
					}
				case *ast.RangeStmt:
					t := p.TypesInfo.TypeOf(n.X)
					if t == nil {
						break
					}
					if _, ok := t.Underlying().(*types.Map); !ok {
						break
					}
					siteID++
					nRange++
					rangeInFunc[curFunc()]++
					siteName := fmt.Sprintf("%s#%s#%d", rel(fn), curFunc(), rangeInFunc[curFunc()])
					siteTable = append(siteTable, fmt.Sprintf("%d\trange\t%s\t%s\t%d\t%s", siteID, rel(fn), curFunc(), tf.Line(n.Pos()), siteName))
					mv := fmt.Sprintf("__vm%d", siteID)
					kv := fmt.Sprintf("__vk%d", siteID)
					vv := fmt.Sprintf("__vv%d", siteID)
					ok := fmt.Sprintf("__vo%d", siteID)
					start := n.Pos()
					if ls, isL := parent.(*ast.LabeledStmt); isL {
						start = ls.Pos()
					}
					needK, needV := !isBlank(n.Key), !isBlank(n.Value)
					pre := fmt.Sprintf("{ %s := %s; ", mv, text(n.X))
					assignTok := "="
					if n.Tok == token.DEFINE {
						// go.mod says go 1.19: range variables are per LOOP. Declare them
						// once, outside the loop, with their zero value.
						switch {
						case needK && needV:
							pre += fmt.Sprintf("%s, %s := simrt.Zero2(%s); ", text(n.Key), text(n.Value), mv)
						case needK:
							pre += fmt.Sprintf("%s := simrt.ZeroK(%s); ", text(n.Key), mv)
						case needV:
							pre += fmt.Sprintf("%s := simrt.ZeroV(%s); ", text(n.Value), mv)
						}
					}
					edits = append(edits, edit{pos: off(start), end: off(start), text: pre, prio: -1})
					hdr := fmt.Sprintf("for _, %s := range simrt.Keys(%s, %d) {", kv, mv, siteID)
					if needV {
						hdr += fmt.Sprintf(" %s, %s := %s[%s]; if !%s { continue };", vv, ok, mv, kv, ok)
					} else {
						hdr += fmt.Sprintf(" if _, %s := %s[%s]; !%s { continue };", ok, mv, kv, ok)
					}
					if needK {
						hdr += fmt.Sprintf(" %s %s %s;", text(n.Key), assignTok, kv)
					}
					if needV {
						hdr += fmt.Sprintf(" %s %s %s;", text(n.Value), assignTok, vv)
					}
					edits = append(edits, edit{pos: off(n.For), end: off(n.Body.Lbrace) + 1, text: hdr})
					edits = append(edits, edit{pos: off(n.End()), end: off(n.End()), text: " }", prio: 1})
				case *ast.ExprStmt:
					// method call statement on a package-level variable (of this or another
					// package of the module): potentially a write to process-wide state
					if call, ok := n.X.(*ast.CallExpr); ok && len(funcStack) > 0 && funcStack[0] != "init" {
						if sel, ok := call.Fun.(*ast.SelectorExpr); ok {
							if _, isMethod := p.TypesInfo.Selections[sel]; isMethod {
								if id := rootIdent(sel.X); id != nil {
									obj := p.TypesInfo.ObjectOf(id)
									var v *types.Var
									if pn, isPkg := obj.(*types.PkgName); isPkg {
										// pkg.Var.Method(): the variable is the selector just below
										if inner, ok := sel.X.(*ast.SelectorExpr); ok {
											if vv, ok := p.TypesInfo.ObjectOf(inner.Sel).(*types.Var); ok && vv.Parent() == pn.Imported().Scope() && strings.HasPrefix(pn.Imported().Path(), "github.com/benoitkugler/webrender") && !strings.HasSuffix(pn.Imported().Path(), "/logger") {
												v = vv
											}
										}
									} else if vv, ok := obj.(*types.Var); ok && vv.Parent() == p.Types.Scope() {
										v = vv
									}
									if v != nil && !isMutex(v.Type()) {
										switch parent.(type) {
										case *ast.BlockStmt, *ast.CaseClause, *ast.CommClause:
											siteID++
											nGW++
											siteTable = append(siteTable, fmt.Sprintf("%d\tgwrite\t%s\t%s\t%d\t%s.%s()", siteID, rel(fn), curFunc(), tf.Line(n.Pos()), v.Name(), sel.Sel.Name))
											edits = append(edits, edit{pos: off(n.End()), end: off(n.End()), text: fmt.Sprintf("; simrt.W(%d)", siteID), prio: 2})
										}
									}
								}
							}
						}
					}
					if call, ok := n.X.(*ast.CallExpr); ok && len(call.Args) == 2 && len(funcStack) > 0 && funcStack[0] != "init" {
						if fid, ok := call.Fun.(*ast.Ident); ok && fid.Name == "delete" {
							if _, isBuiltin := p.TypesInfo.ObjectOf(fid).(*types.Builtin); isBuiltin && pureExpr(call.Args[0]) {
								switch parent.(type) {
								case *ast.BlockStmt, *ast.CaseClause, *ast.CommClause:
									siteID++
									nMW++
									siteTable = append(siteTable, fmt.Sprintf("%d\tmwrite\t%s\t%s\t%d\t%s", siteID, rel(fn), curFunc(), tf.Line(n.Pos()), text(call.Args[0])))
									edits = append(edits, edit{pos: off(n.End()), end: off(n.End()), text: fmt.Sprintf("; simrt.MW(%s, %d)", text(call.Args[0]), siteID), prio: 3})
								}
							}
							if _, isBuiltin := p.TypesInfo.ObjectOf(fid).(*types.Builtin); isBuiltin {
								if id := rootIdent(call.Args[0]); id != nil {
									if v, ok := p.TypesInfo.ObjectOf(id).(*types.Var); ok && v.Parent() == p.Types.Scope() {
										switch parent.(type) {
										case *ast.BlockStmt, *ast.CaseClause, *ast.CommClause:
											siteID++
											nGW++
											siteTable = append(siteTable, fmt.Sprintf("%d\tgwrite\t%s\t%s\t%d\t%s", siteID, rel(fn), curFunc(), tf.Line(n.Pos()), id.Name))
											edits = append(edits, edit{pos: off(n.End()), end: off(n.End()), text: fmt.Sprintf("; simrt.W2(%d, %d)", siteID, gvarID(v)), prio: 2})
										}
									}
								}
							}
						}
					}
				case *ast.IncDecStmt:
					if ix, isIx := n.X.(*ast.IndexExpr); isIx && pureExpr(ix.X) && len(funcStack) > 0 && funcStack[0] != "init" {
						if t := p.TypesInfo.TypeOf(ix.X); t != nil {
							if _, isMap := t.Underlying().(*types.Map); isMap {
								switch parent.(type) {
								case *ast.BlockStmt, *ast.CaseClause, *ast.CommClause:
									siteID++
									nMW++
									siteTable = append(siteTable, fmt.Sprintf("%d\tmwrite\t%s\t%s\t%d\t%s", siteID, rel(fn), curFunc(), tf.Line(n.Pos()), text(ix.X)))
									edits = append(edits, edit{pos: off(n.End()), end: off(n.End()), text: fmt.Sprintf("; simrt.MW(%s, %d)", text(ix.X), siteID), prio: 3})
								}
							}
						}
					}
					if id := rootIdent(n.X); id != nil && len(funcStack) > 0 && funcStack[0] != "init" {
						if v, ok := p.TypesInfo.ObjectOf(id).(*types.Var); ok && v.Parent() == p.Types.Scope() {
							switch parent.(type) {
							case *ast.BlockStmt, *ast.CaseClause, *ast.CommClause:
								siteID++
								nGW++
								siteTable = append(siteTable, fmt.Sprintf("%d\tgwrite\t%s\t%s\t%d\t%s", siteID, rel(fn), curFunc(), tf.Line(n.Pos()), id.Name))
								edits = append(edits, edit{pos: off(n.End()), end: off(n.End()), text: fmt.Sprintf("; simrt.W2(%d, %d)", siteID, gvarID(v)), prio: 2})
							}
						}
					}
				case *ast.AssignStmt:
					// writes to package-level state (directly, through a field, an element or a
					// dereference): candidate interference points between concurrent renders
					if len(funcStack) > 0 && funcStack[0] != "init" && n.Tok != token.DEFINE {
						for _, lhs := range n.Lhs {
							id := rootIdent(lhs)
							if id == nil || id.Name == "_" {
								continue
							}
							v, ok := p.TypesInfo.ObjectOf(id).(*types.Var)
							if !ok || v.Parent() != p.Types.Scope() {
								continue
							}
							switch parent.(type) {
							case *ast.BlockStmt, *ast.CaseClause, *ast.CommClause:
								siteID++
								nGW++
								siteTable = append(siteTable, fmt.Sprintf("%d\tgwrite\t%s\t%s\t%d\t%s", siteID, rel(fn), curFunc(), tf.Line(n.Pos()), id.Name))
								edits = append(edits, edit{pos: off(n.End()), end: off(n.End()), text: fmt.Sprintf("; simrt.W2(%d, %d)", siteID, gvarID(v)), prio: 2})
							}
							break
						}
					}
					// writes through a field, a slice element or a dereference, in the packages whose
					// objects renders may share: simrt.PW records the address
					if n.Tok != token.DEFINE && len(funcStack) > 0 && funcStack[0] != "init" && trackedDir(rel(fn)) {
						switch parent.(type) {
						case *ast.BlockStmt, *ast.CaseClause, *ast.CommClause:
							for _, lhs := range n.Lhs {
								if !pureExpr(lhs) {
									continue
								}
								ok := false
								switch x := lhs.(type) {
								case *ast.SelectorExpr:
									if sel := p.TypesInfo.Selections[x]; sel != nil && sel.Kind() == types.FieldVal {
										ok = true
									}
								case *ast.IndexExpr:
									if t := p.TypesInfo.TypeOf(x.X); t != nil {
										switch u := t.Underlying().(type) {
										case *types.Slice, *types.Array:
											ok = true
										case *types.Pointer:
											_, ok = u.Elem().Underlying().(*types.Array)
										}
									}
								case *ast.StarExpr:
									ok = true
								}
								if !ok {
									continue
								}
								siteID++
								nPW++
								siteTable = append(siteTable, fmt.Sprintf("%d\tmwrite\t%s\t%s\t%d\t%s", siteID, rel(fn), curFunc(), tf.Line(n.Pos()), text(lhs)))
								edits = append(edits, edit{pos: off(n.End()), end: off(n.End()), text: fmt.Sprintf("; simrt.PW(&%s, %d)", text(lhs), siteID), prio: 4})
							}
						}
					}
					// every write into a map (m[k] = v, m[k] op= v): simrt.MW records which task of a
					// concurrent run wrote which map, to find maps written by two renders
					if n.Tok != token.DEFINE && len(funcStack) > 0 && funcStack[0] != "init" {
						for _, lhs := range n.Lhs {
							ix, isIx := lhs.(*ast.IndexExpr)
							if !isIx || !pureExpr(ix.X) {
								continue
							}
							t := p.TypesInfo.TypeOf(ix.X)
							if t == nil {
								continue
							}
							if _, isMap := t.Underlying().(*types.Map); !isMap {
								continue
							}
							switch parent.(type) {
							case *ast.BlockStmt, *ast.CaseClause, *ast.CommClause:
								siteID++
								nMW++
								siteTable = append(siteTable, fmt.Sprintf("%d\tmwrite\t%s\t%s\t%d\t%s", siteID, rel(fn), curFunc(), tf.Line(n.Pos()), text(ix.X)))
								edits = append(edits, edit{pos: off(n.End()), end: off(n.End()), text: fmt.Sprintf("; simrt.MW(%s, %d)", text(ix.X), siteID), prio: 3})
							}
							break
						}
					}
					for _, lhs := range n.Lhs {
						ix, isIx := lhs.(*ast.IndexExpr)
						if !isIx {
							continue
						}
						t := p.TypesInfo.TypeOf(ix.X)
						if t == nil {
							continue
						}
						m, isMap := t.Underlying().(*types.Map)
						if !isMap || !ranged[types.TypeString(m, nil)] {
							continue
						}
						switch parent.(type) {
						case *ast.BlockStmt, *ast.CaseClause, *ast.CommClause:
							edits = append(edits, edit{pos: off(n.End()), end: off(n.End()), text: fmt.Sprintf("; simrt.Touch(%s)", text(ix.Index)), prio: 0})
							nTouch++
						default:
							skippedTouch = append(skippedTouch, p.Fset.Position(n.Pos()).String())
						}
					}
				}
				return true
			})
			// import on the package line, so that line numbers do not move
			edits = append(edits, edit{pos: off(f.Name.End()), end: off(f.Name.End()), text: `; import simrt "` + simPath + `"`, prio: 0})
			edits = append(edits, edit{pos: len(src), end: len(src), text: "\nvar _ = simrt.Y\n", prio: 9})
			sort.SliceStable(edits, func(i, j int) bool {
				if edits[i].pos != edits[j].pos {
					return edits[i].pos < edits[j].pos
				}
				return edits[i].prio < edits[j].prio
			})
			var out bytes.Buffer
			cur := 0
			for _, e := range edits {
				if e.pos < cur {
					fmt.Fprintf(os.Stderr, "rewriter: overlapping edits in %s at offset %d\n", fn, e.pos)
					os.Exit(2)
				}
				out.Write(src[cur:e.pos])
				out.WriteString(e.text)
				cur = e.end
			}
			out.Write(src[cur:])
			if err := os.WriteFile(fn, out.Bytes(), 0o644); err != nil {
				panic(err)
			}
		}
	}
	must := func(err error) {
		if err != nil {
			panic(err)
		}
	}
	must(os.MkdirAll(dir+"/verifsim", 0o755))
	must(os.WriteFile(dir+"/verifsim/sites.tsv", []byte(strings.Join(siteTable, "\n")+"\n"), 0o644))
	must(os.WriteFile(dir+"/verifsim/uncontrolled.txt", []byte(strings.Join(uncontrolled, "\n")+"\n"), 0o644))
	var rk []string
	for k := range ranged {
		rk = append(rk, k)
	}
	sort.Strings(rk)
	fmt.Fprintf(os.Stderr, "rewriter: ranges=%d touches=%d (skipped %d) yields=%d locks=%d readfile=%d globalwrites=%d mapwrites=%d pointerwrites=%d uncontrolled=%d pointer-keyed ranged map types=%d\n",
		nRange, nTouch, len(skippedTouch), nY, nLock, nRead, nGW, nMW, nPW, len(uncontrolled), len(rk))
	for _, s := range skippedTouch {
		fmt.Fprintln(os.Stderr, "rewriter: WARNING touch skipped at", s)
	}
}
