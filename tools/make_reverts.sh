#!/bin/bash
# tools/make_reverts.sh : for every "fixed:" line of KNOWN_FINDINGS.txt, store the REVERSE of the fix commit as a
# seeded change (seeded/revert-<sha>/): re-introducing a repaired defect must make the check of its property fail
# again. Reverts that no longer apply cleanly to /repo's HEAD (later fixes touch the same lines) are skipped.
cd /verif
grep "^fixed:" KNOWN_FINDINGS.txt | while read -r _ prop sha rest; do
  p=${prop#property=}
  d=seeded/revert-$sha
  tmp=$(mktemp)
  git -C /repo diff $sha $sha~1 > $tmp 2>/dev/null || { echo "no such commit $sha"; rm -f $tmp; continue; }
  if ! git -C /repo apply --check $tmp 2>/dev/null; then echo "skip $sha (does not revert cleanly)"; rm -f $tmp; rm -rf $d; continue; fi
  mkdir -p $d/demo
  mv $tmp $d/patch.diff
  subj=$(git -C /repo log -1 --format=%s $sha)
  python3 - "$d" "$p" "$sha" "$subj" "$rest" <<'PY'
import json,sys
d,p,sha,subj,rest=sys.argv[1:6]
json.dump({"breaks_property":p,"kind":"revert of a repair","reverts":sha,"fix_subject":subj,"needs_to_manifest":rest,
 "confirmed":"the defect was reproduced against the real code before the repair (KNOWN_FINDINGS.txt); this patch is `git diff %s %s~1`"%(sha,sha),
 "ran":"tools/try_patch.sh patch.diff quick <property>","result":"see DESIGN.md §17 (reverts)"}, open(d+"/meta.json","w"), indent=1)
open(d+"/demo/README.md","w").write("# revert of %s\n\n%s\n\nFailing input / history as recorded when the defect was found:\n\n    %s\n\nThe corpus scenario named there is the demonstration: it fails the check of %s with this patch applied and passes without it.\n"%(sha,subj,rest,p))
PY
  echo "stored $d ($p)"
done
