#!/bin/bash
# tools/confirm_mutant.sh <worktree> <mutant dir>   : demo must FAIL with the patch and PASS without
WT=$1; M=$2
export GOFLAGS=-mod=mod GOPROXY=off GOSUMDB=off GOTOOLCHAIN=local
cd "$WT" || exit 2
git checkout -q -- . ; 
( bash "$M/run.sh" > /tmp/confirm_clean.log 2>&1 ); rc0=$?
git checkout -q -- .
git apply "$M/patch.diff" || { echo "patch does not apply"; exit 2; }
( bash "$M/run.sh" > /tmp/confirm_patched.log 2>&1 ); rc1=$?
git checkout -q -- . ; git clean -fdq -e OUT
echo "clean rc=$rc0 patched rc=$rc1"
[ $rc0 -eq 0 ] && [ $rc1 -ne 0 ] && echo CONFIRMED || echo NOT-CONFIRMED
