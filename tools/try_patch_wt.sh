#!/bin/bash
# tools/try_patch_wt.sh <patch.diff> <tier> <prop>...
# Like try_patch.sh, but without touching /repo: the change is applied to a scratch git worktree of /repo's
# HEAD (VERIF_REPO points the checks at it). For iterating while /repo is busy; the stored results come from
# try_patch.sh / run_seeded.sh, which patch /repo itself.   VERIF_HOME = the /verif copy to run (default /verif)
export VERIF_EVIDENCE_DIR=${VERIF_EVIDENCE_DIR:-/tmp/verif-evidence-patched}
P=$(readlink -f "$1"); TIER=$2; shift 2
H=${VERIF_HOME:-/verif}
WT=${VERIF_WT:-/dev/shm/mrepo.$$}
git -C /repo worktree add --detach -q "$WT" ${VERIF_BASE:-HEAD} || exit 2
trap 'git -C /repo worktree remove --force "$WT"' EXIT
git -C "$WT" apply "$P" || { echo "patch does not apply"; exit 2; }
cd "$H"
for p in "$@"; do
  S=$(date +%s)
  VERIF_REPO="$WT" VERIF_DIR="$H" ./check $p $TIER > /tmp/trywt_$$_$p.log 2>&1; rc=$?
  E=$(( $(date +%s) - S ))
  echo "== $p $TIER exit=$rc (${E}s)"; grep -E "^VIOLATION|^KNOWN|^  class|INFRA" /tmp/trywt_$$_$p.log | cut -c1-300 | head -8
  rm -f /tmp/trywt_$$_$p.log
done
