#!/bin/bash
# Runs the repository's own test suite on a scratch copy of /repo (guard off: there is no
# guarded code) and compares the passing tests with /root/.vp/BASELINE.json stable_pass.
export GOFLAGS=-mod=mod GOPROXY=off GOSUMDB=off GOTOOLCHAIN=local
S=$(mktemp -d /dev/shm/verif-baseline.XXXXXX); trap 'rm -rf "$S"' EXIT
rsync -a --exclude .git ${VERIF_REPO:-/repo}/ "$S/r/" || exit 2
cd "$S/r" && go build ./... || exit 1
go test -vet=off -count=1 -json -timeout 25m ./... > "$S/out.json" 2>/dev/null
python3 - "$S/out.json" <<'PY'
import json,sys
passed=set(); failed=set()
for l in open(sys.argv[1]):
    try: e=json.loads(l)
    except: continue
    if e.get('Test'):
        k=e['Package']+'::'+e['Test']
        if e['Action']=='pass': passed.add(k)
        if e['Action']=='fail': failed.add(k)
base=set(json.load(open('/root/.vp/BASELINE.json'))['stable_pass'])
missing=sorted(base-passed)
print("baseline stable_pass:",len(base),"passing now:",len(passed&base),"missing:",len(missing))
for m in missing[:20]: print("  MISSING",m)
sys.exit(1 if missing else 0)
PY
