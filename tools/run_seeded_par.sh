#!/bin/bash
# tools/run_seeded_par.sh [tier] [lanes]  : like run_seeded.sh, but every change is applied to its own scratch
# worktree of /repo's HEAD (tools/try_patch_wt.sh) so that several lanes can run at once and /repo is never touched.
TIER=${1:-quick}; LANES=${2:-2}
cd /verif
ls -d seeded/*/ > /tmp/seeded_list.$$
lane() {
  local i=$1
  awk -v n=$LANES -v i=$i 'NR%n==i' /tmp/seeded_list.$$ | while read -r d; do
    n=$(basename $d); p=$(python3 -c "import json;print(json.load(open('$d/meta.json'))['breaks_property'])")
    out=$(VERIF_WT=/dev/shm/mrepo.lane$i tools/try_patch_wt.sh $d/patch.diff $TIER $p 2>&1)
    if echo "$out" | grep -q "exit=1"; then echo "caught  $n ($p): $(echo "$out" | grep -m1 'class=' | cut -c1-120)"; else echo "MISSED  $n ($p): $(echo "$out" | grep -m1 -E 'exit=|apply' )"; fi
  done
}
for i in $(seq 0 $((LANES-1))); do lane $i & done
wait
rm -f /tmp/seeded_list.$$
echo ALLDONE
