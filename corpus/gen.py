#!/usr/bin/env python3
"""Generator of the frozen workload corpus (DESIGN.md §3).

The OUTPUT (corpus/scenarios/*) is committed and is what the checks use; this
script is kept so that the corpus can be audited and extended. It is
deterministic (no randomness beyond random.Random(fixed seed)) and every
expectation it writes is derived from how the document is CONSTRUCTED, never from
what the implementation renders.

Conventions
  * fonts: Ahem (every glyph is 1em x 1em) -> exact geometry
  * words: unique tokens  <flowprefix><3 digits>  (4 chars = 4em wide)
  * margin boxes draw    pg<P>of<N>
  * in-flow probes draw  np<N>      (content: "np" counter(pages)); the restart-free
    twin draws the literal np9 (same width in Ahem)
"""
import base64, json, os, shutil, struct, sys, zlib, random

HERE = os.path.dirname(os.path.abspath(__file__))
OUT = os.path.join(HERE, "scenarios")
RES = "/repo/resources_test"

SCEN = {}


def words(prefix, n, start=1):
    return ["%s%03d" % (prefix, i) for i in range(start, start + n)]


def scenario(name, family, html, files=None, user_css=None, expect=None, engines=None, main="index.html", base=None):
    assert name not in SCEN, name
    expect = dict(expect or {})
    nprobes = html.count('class="probe p') if isinstance(html, str) else 0
    assert nprobes == PROBE_N[0], (name, nprobes, PROBE_N[0])
    PROBE_N[0] = 0
    if nprobes or "probes" in expect:
        expect["probes"] = nprobes
    SCEN[name] = dict(name=name, family=family, html=html, files=files or {}, user_css=user_css or [],
                      expect=expect or {}, engines=engines or ["pango"], main=main, base=base)


def write_all():
    # written next to the live corpus and swapped in with two renames, so that checks
    # running concurrently never see a half-written corpus
    final = OUT
    tmp = OUT + ".new"
    if os.path.isdir(tmp):
        shutil.rmtree(tmp)
    os.makedirs(tmp)
    _write_into(tmp)
    old = OUT + ".old"
    if os.path.isdir(old):
        shutil.rmtree(old)
    if os.path.isdir(final):
        os.rename(final, old)
    os.rename(tmp, final)
    if os.path.isdir(old):
        shutil.rmtree(old)


def _write_into(OUT):
    for name, s in sorted(SCEN.items()):
        d = os.path.join(OUT, name)
        os.makedirs(d)
        html = s["html"]
        with open(os.path.join(d, s["main"]), "wb") as f:
            f.write(html if isinstance(html, bytes) else html.encode("utf-8"))
        files = {}
        for fn, (data, meta) in s["files"].items():
            p = os.path.join(d, fn)
            os.makedirs(os.path.dirname(p), exist_ok=True)
            with open(p, "wb") as f:
                f.write(data if isinstance(data, bytes) else data.encode("utf-8"))
            files[fn] = meta
        for fn in s["user_css"]:
            assert os.path.exists(os.path.join(d, fn)), (name, fn)
        sj = dict(name=name, family=s["family"], main=s["main"], files=files, user_css=s["user_css"],
                  engines=s["engines"], expect=s["expect"])
        if s.get("base"):
            sj["base"] = s["base"]
        with open(os.path.join(d, "scenario.json"), "w") as f:
            json.dump(sj, f, indent=1, sort_keys=True)
            f.write("\n")


# ------------------------------------------------------------------ small binary resources

def png(w, h, rgb):
    raw = b"".join(b"\x00" + bytes(rgb) * w for _ in range(h))

    def chunk(t, d):
        c = struct.pack(">I", len(d)) + t + d
        return c + struct.pack(">I", zlib.crc32(t + d) & 0xffffffff)
    return b"\x89PNG\r\n\x1a\n" + chunk(b"IHDR", struct.pack(">IIBBBBB", w, h, 8, 2, 0, 0, 0)) + \
        chunk(b"IDAT", zlib.compress(raw, 9)) + chunk(b"IEND", b"")


def resfile(name):
    with open(os.path.join(RES, name), "rb") as f:
        return f.read()


# ------------------------------------------------------------------ common CSS

def page_css(w, h, m, margin_box=True, extra=""):
    mb = ""
    if margin_box:
        mb = '@bottom-center { content: "pg" counter(page) "of" counter(pages); font-family: ahem; font-size: 8px; line-height: 8px }'
    return "@page { size: %dpx %dpx; margin: %dpx; %s %s }\n" % (w, h, m, mb, extra)


BASE = "html, body { margin: 0; padding: 0; font-family: ahem; font-size: 10px; line-height: 12px }\n" \
       "p { margin: 0 0 12px 0 }\nh1, h2, h3 { font-size: 10px; line-height: 12px; margin: 0 0 12px 0; font-weight: normal }\n"


def doc(css, body, head=""):
    return "<!DOCTYPE html>\n<html><head><meta charset=utf-8>%s<style>\n%s</style></head>\n<body>\n%s\n</body></html>\n" % (head, css, body)


# Probes are literal in the document ("np9": the restart-free twin). A run activates a
# subset S of them with a generated USER stylesheet
#   .pK::after { content: "np" counter(pages) !important }
# (user !important beats author normal), which makes makeAllPages re-make exactly the
# pages holding an active probe: S is the restart pattern explored by seed.
PROBE_CSS = '.probe::after { content: "np9" }\n'
# for documents of 10-99 pages the literal has the width of the FINAL value (2 digits), so
# that the first pagination pass of an active probe ("np0", narrower) differs from the final
# layout and the re-pagination really has to move content
PROBE_CSS2 = '.probe::after { content: "np99" }\n'


PROBE_N = [0]


def probe():
    k = PROBE_N[0]
    PROBE_N[0] += 1
    return '<span class="probe p%d"></span>' % k


def para(ws, attrs="", probe_after=None):
    """paragraph of words; probe_after = index after which a probe span is inserted"""
    parts = []
    for i, w in enumerate(ws):
        parts.append(w)
        if probe_after is not None and i == probe_after:
            parts.append(probe())
    return "<p%s>%s</p>" % ((" " + attrs) if attrs else "", " ".join(parts))


# ------------------------------------------------------------------ family pag-*

def gen_pag():
    rnd = random.Random(1201)
    n = 0
    configs = [
        # (W, H, M, nparas, words/para range, orphans, widows, forced spec, probes)
        (200, 150, 10, 8, (6, 14), 2, 2, {}, []),
        (200, 150, 10, 8, (6, 14), 2, 2, {}, [2]),
        (200, 150, 10, 8, (6, 14), 2, 2, {}, [1, 5]),
        (240, 110, 8, 10, (5, 20), 1, 1, {}, []),
        (240, 110, 8, 10, (5, 20), 1, 1, {}, [3]),
        (240, 110, 8, 10, (5, 20), 1, 1, {}, [0, 4, 8]),
        (180, 220, 12, 12, (8, 24), 3, 3, {}, []),
        (180, 220, 12, 12, (8, 24), 3, 3, {}, [6]),
        (200, 150, 10, 9, (6, 12), 2, 2, {2: "page", 5: "right", 7: "left"}, []),
        (200, 150, 10, 9, (6, 12), 2, 2, {2: "page", 5: "right", 7: "left"}, [3]),
        (200, 130, 10, 10, (4, 10), 1, 1, {1: "left", 3: "left", 6: "right", 8: "page"}, []),
        (200, 130, 10, 10, (4, 10), 1, 1, {1: "left", 3: "left", 6: "right", 8: "page"}, [4, 7]),
        (300, 100, 6, 14, (10, 30), 2, 1, {}, []),
        (300, 100, 6, 14, (10, 30), 2, 1, {}, [5, 11]),
    ]
    for (W, H, M, np_, wr, orph, wid, forced, probes) in configs:
        n += 1
        for twin in [False]:
            name = "pag-%02d" % n
            PROBE_N[0] = 0
            rr = random.Random(7000 + n)
            css = page_css(W, H, M) + BASE + "p { orphans: %d; widows: %d }\n" % (orph, wid) + PROBE_CSS
            body = []
            flow = []
            fexp = []
            paras = []
            wi = 1
            for pi in range(np_):
                k = rr.randint(*wr)
                ws = words("w", k, wi)
                paras.append(ws)
                wi += k
                attrs = ""
                if pi in forced:
                    attrs = 'style="break-before: %s"' % forced[pi]
                    fexp.append(dict(word=ws[0], side={"page": "any"}.get(forced[pi], forced[pi])))
                pa = None
                if pi in probes:
                    pa = rr.randint(0, k - 1)
                body.append(para(ws, attrs, pa))
                flow += ws
            plain = (orph == 1 and wid == 1 and not forced)
            exp = dict(flows={"main": flow}, margin=True, probes=len(probes), page_w=W, page_h=H,
                       forced=fexp, conserve=True, geometry=True, fits_page=True, plain=plain,
                       line_height=12, margin_top=M, margin_bottom=M, paras=paras, orphans=orph, widows=wid)
            scenario(name, "pag", doc(css, "\n".join(body)), expect=exp, engines=["pango", "gotext"] if n in (1, 4) and not probes else ["pango"])

    # named pages / first / left / right / blank selectors
    n += 1
    W, H, M = 200, 150, 10
    css = ("@page { size: 200px 150px; margin: 10px; @bottom-center { content: \"pg\" counter(page) \"of\" counter(pages); font-family: ahem; font-size: 8px; line-height: 8px } }\n"
           "@page :first { size: 220px 150px }\n@page wide { size: 260px 120px }\n@page :blank { size: 100px 100px }\n"
           + BASE + ".wide { page: wide }\n")
    body, flow, named = [], [], {}
    wi = 1
    for pi in range(3):
        ws = words("w", 12, wi); wi += 12
        body.append(para(ws)); flow += ws
    ws1 = words("w", 40, wi); wi += 40
    body.append('<div class=wide>%s</div>' % para(ws1)); flow += ws1
    for w in ws1:
        named[w] = "wide"
    ws2 = words("w", 14, wi); wi += 14
    body.append(para(ws2, 'style="break-before: right"')); flow += ws2
    exp = dict(flows={"main": flow}, margin=True, page_w=W, page_h=H, conserve=True, geometry=True,
               page_sizes={"first": [220, 150], "wide": [260, 120], "blank": [100, 100]}, named_of=named,
               forced=[dict(word=ws1[0], side="any"), dict(word=ws2[0], side="right")], line_height=12, margin_top=M, margin_bottom=M)
    scenario("pag-%02d" % n, "pag", doc(css, "\n".join(body)), expect=exp)

    # break-inside: avoid and break-after: avoid
    n += 1
    css = page_css(200, 150, 10) + BASE + ".keep { break-inside: avoid }\nh2 { break-after: avoid }\n" + PROBE_CSS
    body, flow, keep, kwn = [], [], [], []
    wi = 1
    for pi in range(10):
        hw = words("h", 2, pi * 2 + 1)
        body.append("<h2>%s</h2>" % " ".join(hw)); flow += hw
        ws = words("w", 6 + (pi * 5) % 11, wi); wi += len(ws)
        body.append(para(ws, 'class=keep', 2 if pi == 4 else None)); flow += ws
        keep.append(ws); kwn.append([hw[0], ws[0]])
    exp = dict(flows={"main": flow}, margin=True, probes=1, page_w=200, page_h=150, conserve=True, geometry=True,
               fits_page=True, line_height=12, margin_top=10, margin_bottom=10, keep_together=keep, keep_with_next=kwn)
    scenario("pag-%02d" % n, "pag", doc(css, "\n".join(body)), expect=exp)


# ------------------------------------------------------------------ family oof-* (out of flow, repeated content)

def gen_oof():
    # 1-4: floats broken across pages, several at once, with / without probes
    for n, (nfl, probes) in enumerate([(2, []), (2, [1]), (3, []), (3, [0, 2])], start=1):
        for twin in [False]:
            name = "oof-%02d" % n
            PROBE_N[0] = 0
            css = page_css(260, 150, 10) + BASE + ".f { float: left; width: 50px; margin-right: 10px }\n.r { float: right; width: 50px }\n" + PROBE_CSS
            flows = {}
            body = []
            main = []
            ws = words("w", 10, 1); main += ws
            body.append(para(ws))
            for fi in range(nfl):
                pre = "fgk"[fi]
                fw = words(pre, 30)
                flows["float%d" % fi] = fw
                body.append('<div class="%s">%s</div>' % ("r" if fi == 2 else "f", " ".join(fw)))
            wi = 11
            for pi in range(6):
                ws = words("w", 12, wi); wi += 12; main += ws
                body.append(para(ws, "", 5 if pi in probes else None))
            flows["main"] = main
            exp = dict(flows=flows, margin=True, probes=len(probes), page_w=260, page_h=150, conserve=True,
                       line_height=12, margin_top=10, margin_bottom=10)
            scenario(name, "oof", doc(css, "\n".join(body)), expect=exp)

    # 5: absolutely positioned box broken across pages + relative container
    css = page_css(240, 140, 10) + BASE + ".rel { position: relative }\n.abs { position: absolute; left: 150px; top: 0; width: 60px }\np { width: 130px }\n"
    main, body = [], []
    aw = words("a", 28)
    body.append('<div class=rel><div class=abs>%s</div>' % " ".join(aw))
    wi = 1
    for pi in range(7):
        ws = words("w", 9, wi); wi += 9; main += ws
        body.append(para(ws))
    body.append("</div>")
    scenario("oof-05", "oof", doc(css, "\n".join(body)),
             expect=dict(flows={"main": main, "abs": aw}, margin=True, page_w=240, page_h=140, conserve=True, line_height=12, margin_top=10, margin_bottom=10))

    # 6: footnotes
    css = page_css(240, 160, 10) + BASE + ".fn { float: footnote; font-size: 10px }\n::footnote-call { content: \"\" }\n::footnote-marker { content: \"\" }\n@page { @footnote { margin-top: 6px } }\n" + PROBE_CSS
    main, body, flows = [], [], {}
    wi = 1
    for pi in range(8):
        ws = words("w", 10, wi); wi += 10; main += ws
        fn = ""
        if pi in (1, 3, 4, 6):
            fw = words("n%d" % pi, 5)
            flows["fn%d" % pi] = fw
            fn = ' <span class=fn>%s</span>' % " ".join(fw)
        body.append("<p>%s%s %s</p>" % (" ".join(ws[:5]), fn, " ".join(ws[5:]) + ((' ' + probe()) if pi in (2, 5) else "")))
    flows["main"] = main
    scenario("oof-06", "oof", doc(css, "\n".join(body)),
             expect=dict(flows=flows, margin=True, probes=1, page_w=240, page_h=160, conserve=True, line_height=12, margin_top=10, margin_bottom=10))

    # 14: footnotes that do not fit on the page of their call and are reported to the next page, with probes
    css = page_css(240, 140, 10) + "@page :first { margin-top: 22px }\n" + BASE + ".fn { float: footnote; font-size: 10px }\n::footnote-call { content: \"\" }\n::footnote-marker { content: \"\" }\n" + PROBE_CSS
    main, body, flows = [], [], {}
    wi = 1
    for pi in range(10):
        ws = words("w", 12, wi); wi += 12; main += ws
        fn = ""
        if pi in (1, 2, 4, 6, 7):
            fw = words("n%d" % pi, 18 if pi in (2, 6) else 6)
            flows["fn%d" % pi] = fw
            fn = ' <span class=fn>%s</span>' % " ".join(fw)
        body.append("<p>%s%s %s</p>" % (" ".join(ws[:9]), fn, " ".join(ws[9:]) + ((' ' + probe()) if pi in (0, 3, 5, 8) else "")))
    flows["main"] = main
    # the last footnote is long and called on the last line of the document: it needs an extra page of its own
    fw = words("nz", 60); flows["fnz"] = fw
    ws = words("w", 6, wi); main += ws
    body.append('<p>%s <span class=fn>%s</span></p>' % (" ".join(ws), " ".join(fw)))
    scenario("oof-14", "oof", doc(css, "\n".join(body)), expect=dict(flows=flows, margin=True, page_w=240, page_h=140, conserve=True, line_height=12,
                                                                     page_margins={"first": [22, 10, 10, 10], "left": [10, 10, 10, 10], "right": [10, 10, 10, 10]}))

    # 7: running element + string-set + fixed element + table header/footer repetition
    css = ("@page { size: 260px 170px; margin: 30px 10px 10px 10px; @top-left { content: element(hdr) } @top-right { content: string(chap); font-family: ahem; font-size: 8px } "
           "@bottom-center { content: \"pg\" counter(page) \"of\" counter(pages); font-family: ahem; font-size: 8px; line-height: 8px } }\n" + BASE +
           ".hdr { position: running(hdr); font-size: 8px }\nh2 { string-set: chap content() }\n.fix { position: fixed; bottom: 0; right: 0; font-size: 8px }\n"
           "table { border-collapse: collapse; width: 100% }\ntd, th { padding: 0; font-weight: normal; text-align: left }\n")
    main, body = [], []
    body.append('<div class=hdr>rh01</div><div class=fix>fx01</div>')
    body.append("<h2>c001</h2>")
    rows = []
    cells = {}
    for r in range(16):
        a, b = "ta%02d" % r, "tb%02d" % r
        rows.append("<tr><td>%s</td><td>%s</td></tr>" % (a, b))
        main += [a, b]
    body.append("<table><thead><tr><th>th01</th><th>th02</th></tr></thead><tfoot><tr><td>tf01</td><td>tf02</td></tr></tfoot><tbody>%s</tbody></table>" % "".join(rows))
    ws = words("w", 20);
    body.append(para(ws))
    scenario("oof-07", "oof", doc(css, "\n".join(body)),
             expect=dict(flows={"main": ["c001"] + main + ws}, repeat=["rh01", "fx01", "th01", "th02", "tf01", "tf02", "c001"], margin=True,
                         page_w=260, page_h=170, conserve=True, line_height=12))

    # 8: multi-column
    css = page_css(260, 150, 10) + BASE + ".mc { columns: 2; column-gap: 10px }\n"
    ws = words("w", 90)
    scenario("oof-08", "oof", doc(css, '<div class=mc>%s</div>' % " ".join(ws)),
             expect=dict(flows={"main": ws}, margin=True, page_w=260, page_h=150, conserve=True, line_height=12))

    # 9: two floats + absolute + probe on a page that holds pending out-of-flow content
    for twin in [False]:
        name = "oof-09"
        PROBE_N[0] = 0
        css = page_css(280, 150, 10) + BASE + ".f { float: left; width: 50px; margin-right: 10px }\n" + PROBE_CSS
        flows, body, main = {}, [], []
        f1, f2 = words("f", 34), words("g", 22)
        flows["float0"], flows["float1"] = f1, f2
        body.append('<div class=f>%s</div><div class=f>%s</div>' % (" ".join(f1), " ".join(f2)))
        wi = 1
        for pi in range(7):
            ws = words("w", 10, wi); wi += 10; main += ws
            body.append(para(ws, "", 4 if pi in (1, 3, 5) else None))
        flows["main"] = main
        exp = dict(flows=flows, margin=True, probes=3, page_w=280, page_h=150, conserve=True, line_height=12)
        scenario(name, "oof", doc(css, "\n".join(body)), expect=exp)


# ------------------------------------------------------------------ family grid/flex/table

def gen_layouts():
    # grid with spanning items, several tracks
    css = page_css(300, 160, 10) + BASE + (".g { display: grid; grid-template-columns: 80px 1fr 60px; grid-auto-rows: min-content; column-gap: 10px; row-gap: 4px }\n"
                                            ".s2 { grid-column: 1 / span 2 }\n.r2 { grid-row: span 2 }\n")
    items, flows = [], {}
    for i in range(12):
        ws = words("abcdefghijkl"[i], 4 + (i * 3) % 7)
        flows["item%d" % i] = ws
        cls = "s2" if i % 5 == 1 else ("r2" if i % 7 == 3 else "")
        items.append('<div class="%s">%s</div>' % (cls, " ".join(ws)))
    scenario("grid-01", "grid", doc(css, '<div class=g>%s</div>' % "".join(items)),
             expect=dict(flows=flows, margin=True, page_w=300, page_h=160, conserve=True, line_height=12))

    css = page_css(300, 200, 10) + BASE + (".g { display: grid; grid-template-columns: repeat(3, 1fr); grid-template-rows: auto auto; gap: 6px; grid-auto-flow: row dense }\n"
                                            ".a { grid-column: 1 / 3 }\n.b { grid-row: 1 / 3; grid-column: 3 }\n")
    flows = {}
    items = []
    for i, cls in enumerate(["a", "b", "", "", "a", ""]):
        ws = words("mnopqr"[i], 5 + i)
        flows["item%d" % i] = ws
        items.append('<div class="%s">%s</div>' % (cls, " ".join(ws)))
    scenario("grid-02", "grid", doc(css, '<div class=g>%s</div>' % "".join(items) + para(words("w", 12))),
             expect=dict(flows=dict(flows, main=words("w", 12)), margin=True, page_w=300, page_h=200, conserve=True, line_height=12))

    # flex
    css = page_css(300, 160, 10) + BASE + ".fx { display: flex; flex-wrap: wrap; gap: 6px }\n.fx > div { flex: 1 1 80px }\n.col { display: flex; flex-direction: column }\n"
    flows, items = {}, []
    for i in range(9):
        ws = words("abcdefghi"[i], 3 + (i * 2) % 5)
        flows["item%d" % i] = ws
        items.append("<div>%s</div>" % " ".join(ws))
    scenario("flex-01", "flex", doc(css, '<div class=fx>%s</div>' % "".join(items) + para(words("w", 30))),
             expect=dict(flows=dict(flows, main=words("w", 30)), margin=True, page_w=300, page_h=160, conserve=True, line_height=12))
    flows, items = {}, []
    for i in range(14):
        ws = words("abcdefghijklmn"[i], 4)
        flows["item%d" % i] = ws
        items.append("<div>%s</div>" % " ".join(ws))
    scenario("flex-02", "flex", doc(css, '<div class=col>%s</div>' % "".join(items)),
             expect=dict(flows=flows, margin=True, page_w=300, page_h=160, conserve=True, line_height=12))

    # tables: spanning cells that fragment over pages
    css = page_css(300, 150, 10) + BASE + "table { border-collapse: separate; border-spacing: 2px; width: 100% }\ntd { padding: 0; vertical-align: top }\n" + PROBE_CSS
    flows, rows = {}, []
    for r in range(12):
        tds = []
        for cidx in range(3):
            if r % 4 == 0 and cidx == 1:
                continue  # covered by colspan
            ws = words("r%dc%d" % (r, cidx), 2 + (r + cidx) % 3)
            flows["cell_%d_%d" % (r, cidx)] = ws
            span = ' colspan=2' if (r % 4 == 0 and cidx == 0) else ""
            tds.append("<td%s>%s%s</td>" % (span, " ".join(ws), (' ' + probe()) if (r, cidx) in ((2, 1), (7, 2)) else ""))
        rows.append("<tr>%s</tr>" % "".join(tds))
    scenario("table-01", "table", doc(css, "<table>%s</table>" % "".join(rows)),
             expect=dict(flows=flows, margin=True, probes=1, page_w=300, page_h=150, conserve=True, line_height=12))
    css = page_css(300, 150, 10) + BASE + "table { border-collapse: collapse; width: 100% }\ntd { padding: 1px; border: 1px solid black; vertical-align: top }\n"
    flows, rows = {}, []
    for r in range(6):
        tds = []
        for cidx in range(2):
            ws = words("s%dc%d" % (r, cidx), 6 + 5 * ((r + cidx) % 3))
            flows["cell_%d_%d" % (r, cidx)] = ws
            tds.append("<td>%s</td>" % " ".join(ws))
        rows.append("<tr>%s</tr>" % "".join(tds))
    scenario("table-02", "table", doc(css, "<table>%s</table>" % "".join(rows)),
             expect=dict(flows=flows, margin=True, page_w=300, page_h=150, conserve=True, line_height=12))


# ------------------------------------------------------------------ family link-*

def gen_links():
    # ids (with duplicates, across pages), internal/external links, dangling, bookmarks of mixed levels
    css = page_css(220, 150, 10) + BASE + "h1 { bookmark-level: 1 } h2 { bookmark-level: 2 } h3 { bookmark-level: 3 }\na { color: blue; text-decoration: none }\n"
    body, flow = [], []
    ids, links, bms = {}, [], []
    wi = 1

    def h(level, idx, id_=None):
        ws = words("h", 2, idx * 2 + 1)
        body.append("<h%d%s>%s</h%d>" % (level, (' id="%s"' % id_) if id_ else "", " ".join(ws), level))
        bms.append(dict(level=level, label=" ".join(ws), word=ws[0]))
        if id_ and id_ not in ids:
            ids[id_] = ws[0]
        return ws

    def p(k, link=None, id_=None):
        nonlocal wi
        ws = words("w", k, wi); wi += k
        inner = list(ws)
        if link:
            inner[1] = '<a href="%s">%s</a>' % (link, ws[1])
            if link.startswith("#"):
                links.append(dict(word=ws[1], target=link[1:]))
        body.append("<p%s>%s</p>" % ((' id="%s"' % id_) if id_ else "", " ".join(inner)))
        if id_ and id_ not in ids:
            ids[id_] = ws[0]
        return ws

    flow += h(1, 0, "top")
    flow += p(14, "#s2")
    flow += p(16, "#dup")
    flow += h(2, 1, "s1")
    flow += p(20, "#nowhere")
    flow += p(12, None, "dup")          # first element with id dup
    flow += h(2, 2, "s2")
    flow += p(18, "http://example.org/x")
    flow += h(3, 3)
    flow += p(22, "#top")
    flow += p(10, None, "dup")          # second element with the same id (later page)
    flow += h(1, 4, "s3")
    flow += p(15, "#s3")
    flow += h(3, 5)                      # level 3 directly under level 1
    flow += p(9, "#dup")
    links = [l for l in links if l["target"] != "nowhere"]
    head = "<title>Link title</title><meta name=author content=\"Ann Author\"><meta name=author content=\"Bob B\"><meta name=description content=\"A description\">" \
           "<meta name=keywords content=\"k1, k2\"><meta name=generator content=\"gen 1.0\"><meta name=dcterms.created content=\"2020-01-02\">"
    scenario("link-01", "link", doc(css, "\n".join(body), head),
             expect=dict(flows={"main": flow}, margin=True, page_w=220, page_h=150, conserve=True, ids=ids, links=links, dangling=["nowhere"], bookmarks=bms,
                         meta={"Title": "Link title", "Authors": "Ann Author\x1fBob B", "Description": "A description", "Keywords": "k1\x1fk2", "Creator": "gen 1.0"},
                         line_height=12))

    # transforms on linked boxes, anchors inside floats and inline-blocks, zoom relevant
    css = page_css(260, 160, 10) + BASE + ".t { transform: rotate(10deg) scale(1.2); transform-origin: 0 0 }\n.f { float: right; width: 70px }\n.ib { display: inline-block; width: 60px }\nh1 { bookmark-level: 1 }\n"
    body, flow, ids, links, bms, flows = [], [], {}, [], [], {}
    hw = words("h", 2); body.append('<h1 id=a0 class=t>%s</h1>' % " ".join(hw)); flow += hw; ids["a0"] = hw[0]; bms.append(dict(level=1, label=" ".join(hw), word=hw[0]))
    fw = words("f", 8); flows["float0"] = fw
    body.append('<div class=f id=fl>%s <a href="#a0">%s</a></div>' % (" ".join(fw[:-1]), fw[-1])); ids["fl"] = fw[0]; links.append(dict(word=fw[-1], target="a0"))
    wi = 1
    for pi in range(9):
        ws = words("w", 11, wi); wi += 11; flow += ws
        inner = list(ws)
        if pi == 2:
            inner[3] = '<a class=t href="#fl" id=tl>%s</a>' % ws[3]; links.append(dict(word=ws[3], target="fl")); ids["tl"] = ws[3]
        if pi == 6:
            inner[0] = '<span class=ib id=ib1>%s</span>' % ws[0]; ids["ib1"] = ws[0]
            inner[5] = '<a href="#ib1">%s</a>' % ws[5]; links.append(dict(word=ws[5], target="ib1"))
        body.append("<p>%s</p>" % " ".join(inner))
    flows["main"] = flow
    scenario("link-02", "link", doc(css, "\n".join(body), "<title>T2</title>"),
             expect=dict(flows=flows, margin=True, page_w=260, page_h=160, ids=ids, links=links, bookmarks=bms, meta={"Title": "T2"}, line_height=12))

    # dates with every time-zone form
    for i, (val, want) in enumerate([("2020-01-02T03:04:05-01:15", "2020-01-02T04:19:05Z"), ("2020-01-02T03:04:05+05:30", "2020-01-01T21:34:05Z"), ("1997-07-16T19:20Z", "1997-07-16T19:20:00Z"), ("1997-07", "1997-07-01T00:00:00Z")], start=6):
        scenario("link-%02d" % i, "link", doc(page_css(220, 150, 10) + BASE, para(words("w", 6)), '<title>D%d</title><meta name=dcterms.created content="%s"><meta name=dcterms.modified content="%s">' % (i, val, val)),
                 expect=dict(margin=True, page_w=220, page_h=150, meta={"Title": "D%d" % i, "DateCreation": want, "DateModification": want}, line_height=12))

    # link-11: date strings at the edges of the W3C profile (long fractions, odd offsets, out-of-range fields): no expectation on
    # the forwarded value, the readers must survive
    odd_dates = ["2011-04-21T23:00:00.33333333333333333333Z", "2011-04-21T23:00:00.5+14:00", "2011-04-21T23:00:00,5Z", "2011-13-41T25:61:61Z", "2011-04-21T23:00-03:30", "2011-04-21T23Z", "20110421", "2011-04-21T23:00:00+99:99",
                 "99999-01-01", "0000-00-00T00:00:00Z", "2011-04-21T23:00:00.Z", "2011-04-21 23:00:00", "-2011-04-21", "2011-04-21T23:00:00+0", "T23:00", ""]
    for i, d1 in enumerate(odd_dates):
        d2 = odd_dates[(i * 7 + 3) % len(odd_dates)]
        scenario("link-%d" % (11 + i), "link", doc(page_css(220, 150, 10) + BASE, para(words("w", 4)), '<title>O%d</title><meta name=dcterms.created content="%s"><meta name=dcterms.modified content="%s"><meta name="DCTERMS.Created" content="%s">' % (i, d1, d2, d2)),
                 expect=dict(margin=True, page_w=220, page_h=150, meta={"Title": "O%d" % i}, line_height=12))

    # attachments: <link rel=attachment>, <a rel=attachment>
    css = page_css(220, 150, 10) + BASE
    body = [para(words("w", 10)), '<p><a rel=attachment href="att1.txt">w011</a> w012 <a rel=attachment href="missing.bin">w013</a> <a rel=attachment href="att1.txt">w012b</a></p>', para(words("w", 30, 14))]
    head = '<title>Att</title><link rel=attachment href="att2.txt" title="second">'
    scenario("link-03", "link", doc(css, "\n".join(body), head),
             files={"att1.txt": ("attachment one\n", dict(mime="text/plain", kind="attachment")), "att2.txt": ("attachment two\n", dict(mime="text/plain", kind="attachment"))},
             expect=dict(flows={"main": words("w", 43)}, margin=True, page_w=220, page_h=150, meta={"Title": "Att"}, line_height=12,
                         sentinels=words("w", 43)))

    # many anchors per page (>= 2 on every page), target-counter links
    css = page_css(240, 150, 10) + BASE + 'a::after { content: " tc" target-counter(attr(href), page) }\n'
    body, flow, ids, links = [], [], {}, []
    wi = 1
    for pi in range(12):
        ws = words("w", 10, wi); wi += 10; flow += ws
        inner = list(ws)
        inner[0] = '<span id="i%da">%s</span>' % (pi, ws[0]); ids["i%da" % pi] = ws[0]
        inner[4] = '<span id="i%db">%s</span>' % (pi, ws[4]); ids["i%db" % pi] = ws[4]
        tgt = "i%da" % ((pi * 5 + 3) % 12)
        inner[7] = '<a href="#%s">%s</a>' % (tgt, ws[7]); links.append(dict(word=ws[7], target=tgt))
        body.append("<p>%s</p>" % " ".join(inner))
    scenario("link-04", "link", doc(css, "\n".join(body), "<title>Many</title>"),
             expect=dict(flows={"main": flow}, margin=True, page_w=240, page_h=150, ids=ids, links=links, meta={"Title": "Many"}, line_height=12))


# ------------------------------------------------------------------ family res-* (every resource kind through the site)

SVG_SIMPLE = '<svg xmlns="http://www.w3.org/2000/svg" width="40" height="30" viewBox="0 0 40 30"><rect x="2" y="2" width="36" height="26" fill="#0a0" stroke="black"/><path d="M5 5 L35 5 L20 25 z M10,10 h5 v5 h-5z" fill="red"/><circle cx="20" cy="15" r="6" fill="blue"/></svg>'


def gen_res():
    css0 = page_css(260, 160, 10) + BASE + "img { width: 40px; height: 30px }\n"
    W = words("w", 24)
    text = para(W[:12]) + "\n" + para(W[12:])
    exp0 = dict(margin=True, page_w=260, page_h=160, line_height=12, sentinels=W)

    # 01: <link> stylesheet + @import chain depth 3 + diamond
    files = {
        "a.css": ('@import url("b.css");\n@import "c.css";\np { color: #111 }\n', dict(mime="text/css", kind="css")),
        "b.css": ('@import "d.css";\n.b { margin-left: 2px }\n', dict(mime="text/css", kind="css")),
        "c.css": ('@import url(d.css);\n.c { margin-left: 3px }\n', dict(mime="text/css", kind="css")),
        "d.css": ('@import "sub/e.css";\n.d { margin-left: 4px }\n', dict(mime="text/css", kind="css")),
        "sub/e.css": ('.e { margin-left: 5px; background: url(../dot.png) }\n', dict(mime="text/css", kind="css")),
        "dot.png": (png(2, 2, (200, 0, 0)), dict(mime="image/png", kind="image")),
    }
    scenario("res-01", "res", doc(css0, '<div class="b c d e">%s</div>' % text, '<link rel=stylesheet href="a.css"><link rel=stylesheet media="print," href="a.css"><link rel=stylesheet media=", print" href="dot.png"><style media="screen,,print">p { color: #123 }</style><style media=",">p { color: #124 }</style><style media="">p { color: #125 }</style><style media=" , , ">p { color: #126 }</style>'), files=files, expect=dict(exp0))

    # 02: @import cycle a <-> b, and self import
    files = {
        "a.css": ('@import "b.css";\np { color: #222 }\n', dict(mime="text/css", kind="css")),
        "b.css": ('@import "a.css";\n.b { margin-left: 2px }\n', dict(mime="text/css", kind="css")),
    }
    scenario("res-02", "res", doc(css0, text, '<link rel=stylesheet href="a.css">'), files=files, expect=dict(exp0, cyclic=True))
    files = {"s.css": ('@import "s.css";\np { color: #333 }\n', dict(mime="text/css", kind="css"))}
    scenario("res-03", "res", doc(css0, text, '<link rel=stylesheet href="s.css">'), files=files, expect=dict(exp0, cyclic=True))

    # 04: images of every raster kind + svg, as <img>, background, list-style-image, content:url()
    files = {
        "p.png": (resfile("pattern.png"), dict(mime="image/png", kind="image")),
        "p.gif": (resfile("pattern.gif"), dict(mime="image/gif", kind="image")),
        "b.jpg": (resfile("blue.jpg"), dict(mime="image/jpeg", kind="image")),
        "s.svg": (SVG_SIMPLE, dict(mime="image/svg+xml", kind="svg")),
        "pal.png": (resfile("pattern.palette.png"), dict(mime="image/png", kind="image")),
    }
    css = css0 + ".bg { background: url(p.png) repeat; min-height: 20px }\n.bg2 { background: url(p.png), url(p.gif) #eee; min-height: 10px }\nul { list-style-image: url(p.gif); margin: 0; padding-left: 20px }\n.c::before { content: url(b.jpg) }\n"
    body = ('<p><img src="p.png" alt="alt1"> <img src="p.gif" alt="alt2"> <img src="b.jpg" alt="alt3"> <img src="s.svg" alt="alt4"> <img src="pal.png" alt="alt5"> <img src="p.png" alt="alt6"></p>'
            '<div class=bg>x001</div><div class=bg2>x005</div><ul><li>x002</li><li>x003</li></ul><p class=c>x004</p><p><embed src="s.svg" type="image/svg+xml"> <object data="p.png" type="image/png">ob01</object></p>' + text)
    scenario("res-04", "res", doc(css, body), files=files,
             expect=dict(exp0, sentinels=W + ["x001", "x002", "x003", "x004", "x005"],
                         fault_words={"p.png": ["alt1", "alt6", "ob01"], "p.gif": ["alt2"], "b.jpg": ["alt3"], "s.svg": ["alt4"], "pal.png": ["alt5"]}))

    # 05: SVG with external <use> and <image> chain
    files = {
        "a.svg": ('<svg xmlns="http://www.w3.org/2000/svg" xmlns:xlink="http://www.w3.org/1999/xlink" width="60" height="40"><image href="b.svg" width="30" height="20"/><use xlink:href="defs.svg#sh" x="30"/><use xlink:href="defs.svg#sh" x="40" y="5"/><use xlink:href="defs.svg#sh" x="20" y="10"/><text x="2" y="38" font-family="ahem" font-size="6">sv01</text></svg>', dict(mime="image/svg+xml", kind="svg")),
        "b.svg": ('<svg xmlns="http://www.w3.org/2000/svg" width="30" height="20"><image href="p.png" width="10" height="10"/><rect width="8" height="8" x="12" fill="green"/></svg>', dict(mime="image/svg+xml", kind="svg")),
        "defs.svg": ('<svg xmlns="http://www.w3.org/2000/svg"><defs><g id="sh"><circle cx="10" cy="10" r="8" fill="orange"/></g></defs></svg>', dict(mime="image/svg+xml", kind="svg")),
        "p.png": (png(4, 4, (0, 0, 200)), dict(mime="image/png", kind="image")),
    }
    scenario("res-05", "res", doc(css0, '<p><img src="a.svg" alt="alt1" style="width:60px;height:40px"></p>' + text), files=files,
             expect=dict(exp0, fault_words={"a.svg": ["alt1", "sv01"]}))

    # 06: SVG <image> cycle a <-> b ; 07: self reference ; 08: external <use> cycle
    files = {
        "a.svg": ('<svg xmlns="http://www.w3.org/2000/svg" width="40" height="30"><image href="b.svg" width="20" height="15"/></svg>', dict(mime="image/svg+xml", kind="svg")),
        "b.svg": ('<svg xmlns="http://www.w3.org/2000/svg" width="40" height="30"><image href="a.svg" width="20" height="15"/></svg>', dict(mime="image/svg+xml", kind="svg")),
    }
    scenario("res-06", "res", doc(css0, '<p><img src="a.svg" alt="alt1"></p>' + text), files=files, expect=dict(exp0, cyclic=True, fault_words={"a.svg": ["alt1"]}))
    files = {"a.svg": ('<svg xmlns="http://www.w3.org/2000/svg" width="40" height="30"><image href="a.svg" width="20" height="15"/></svg>', dict(mime="image/svg+xml", kind="svg"))}
    scenario("res-07", "res", doc(css0, '<p><img src="a.svg" alt="alt1"></p>' + text), files=files, expect=dict(exp0, cyclic=True, fault_words={"a.svg": ["alt1"]}))
    files = {
        "a.svg": ('<svg xmlns="http://www.w3.org/2000/svg" xmlns:xlink="http://www.w3.org/1999/xlink" width="40" height="30"><g id="g1"><use xlink:href="b.svg#g2"/></g></svg>', dict(mime="image/svg+xml", kind="svg")),
        "b.svg": ('<svg xmlns="http://www.w3.org/2000/svg" xmlns:xlink="http://www.w3.org/1999/xlink" width="40" height="30"><g id="g2"><use xlink:href="a.svg#g1"/></g></svg>', dict(mime="image/svg+xml", kind="svg")),
    }
    scenario("res-08", "res", doc(css0, '<p><img src="a.svg" alt="alt1"></p>' + text), files=files, expect=dict(exp0, cyclic=True, fault_words={"a.svg": ["alt1"]}))

    # 09: inline SVG with internal use cycles, gradients, patterns, markers, clip paths, masks, text
    inline = ('<svg xmlns="http://www.w3.org/2000/svg" xmlns:xlink="http://www.w3.org/1999/xlink" width="120" height="60" viewBox="0 0 120 60">'
              '<defs><linearGradient id="lg"><stop offset="0" stop-color="red"/><stop offset="1" stop-color="blue"/></linearGradient>'
              '<radialGradient id="rg" xlink:href="#lg"/><linearGradient id="c1" x1="0" y1="0" x2="0" y2="1"><stop offset="0" stop-color="red"/><stop offset="1" stop-color="blue"/></linearGradient><linearGradient id="c2" xlink:href="#c1" gradientUnits="userSpaceOnUse"/><linearGradient id="c3" xlink:href="#c2" spreadMethod="reflect"/><linearGradient id="c4" xlink:href="#c3" x2="1"/><pattern id="p1" width="6" height="6" patternUnits="userSpaceOnUse"><rect width="3" height="3"/></pattern><pattern id="p2" xlink:href="#p1" x="1"/><pattern id="p3" xlink:href="#p2" y="1"/><pattern id="pt" width="10" height="10" patternUnits="userSpaceOnUse"><rect width="5" height="5" fill="url(#lg)"/></pattern>'
              '<marker id="mk" markerWidth="4" markerHeight="4" refX="2" refY="2"><circle cx="2" cy="2" r="2"/></marker>'
              '<clipPath id="cp"><rect width="50" height="50"/></clipPath><mask id="ms"><rect width="100" height="40" fill="white"/></mask>'
              '<g id="ok1"><rect width="4" height="4" fill="url(#c2)"/><use xlink:href="#ok2" x="5"/></g><g id="ok2"><circle r="2" cx="2" cy="2"/></g></defs>'
              '<rect width="60" height="30" fill="url(#lg)" clip-path="url(#cp)"/><rect x="100" y="0" width="10" height="10" fill="url(#c4)"/><rect x="100" y="12" width="10" height="10" fill="url(#c3)"/><rect x="100" y="24" width="10" height="10" fill="url(#p3)"/><circle cx="80" cy="20" r="15" fill="url(#rg)" mask="url(#ms)"/>'
              '<rect x="60" y="30" width="40" height="20" fill="url(#pt)" stroke="url(#missing)"/>'
              '<path d="M10 50 L40 50 L40 55" stroke="black" fill="none" marker-end="url(#mk)" stroke-dasharray="3 2"/>'
              '<use xlink:href="#ok1" x="70" y="40"/><use xlink:href="#ok1" x="85" y="40"/><use xlink:href="#nothing"/>'
              '<text x="5" y="58" font-family="ahem" font-size="6" transform="rotate(-5) skewX(10)">sv02</text></svg>')
    scenario("res-09", "res", doc(css0, "<p>%s</p>" % inline + text), expect=dict(exp0))
    # 15: inline SVG with internal <use> cycles (the whole image may be dropped, the document must survive)
    cyc = ('<svg xmlns="http://www.w3.org/2000/svg" xmlns:xlink="http://www.w3.org/1999/xlink" width="40" height="30"><defs><g id="u1"><use xlink:href="#u2"/></g><g id="u2"><use xlink:href="#u1"/></g><g id="u3"><use xlink:href="#u3"/></g></defs>'
           '<rect width="10" height="10"/><use xlink:href="#u1"/><use xlink:href="#u3"/></svg>')
    scenario("res-15", "res", doc(css0, "<p>%s</p>" % cyc + text), expect=dict(exp0, cyclic=True))

    # 10: @font-face via url + local, data: URIs, charset-labelled CSS
    files = {
        "ahem2.ttf": (resfile("AHEM____.TTF"), dict(mime="font/ttf", kind="font")),
        "latin.css": ("p::after { content: \"\xe9\" }\n".encode("latin-1"), dict(mime="text/css", charset="latin-1", kind="css")),
        "utf16.css": ("﻿.u { margin-left: 1px }\n".encode("utf-16-le"), dict(mime="text/css", charset="utf-16le", kind="css")),
    }
    datapng = "data:image/png;base64," + base64.b64encode(png(3, 3, (0, 150, 0))).decode()
    datacss = "data:text/css,.dc%7Bmargin-left%3A2px%7D"
    css = css0 + '@font-face { font-family: myahem; src: url(ahem2.ttf) format("truetype") }\n@font-face { font-family: loc; src: local(Ahem) }\n.m { font-family: myahem }\n.l { font-family: loc, ahem }\n'
    body = '<p class=m>m001 m002</p><p class=l>l001 l002</p><p><img src="%s" alt=alt1></p>' % datapng + text
    scenario("res-10", "res", doc(css, body, '<link rel=stylesheet href="latin.css"><link rel=stylesheet href="utf16.css"><link rel=stylesheet href="%s">' % datacss), files=files,
             expect=dict(exp0, sentinels=W + ["l001", "l002"], fault_words={"ahem2.ttf": ["m001", "m002"]}))

    # 11: resources served through the real DefaultUrlFetcher over SimTransport (gzip, content-disposition, redirect)
    files = {
        "z.css": ("p { color: #444 }\n.z { margin-left: 3px }\n" * 20, dict(mime="text/css", gzip=True, kind="css")),
        "i.png": (png(5, 5, (10, 20, 30)), dict(mime="image/png", filename="i.png", kind="image")),
    }
    scenario("res-11", "res", doc(css0, '<p class=z><img src="i.png" alt="alt1"></p>' + text, '<link rel=stylesheet href="z.css">'), files=files,
             expect=dict(exp0, fault_words={"i.png": ["alt1"]}))

    # 12: wrong / missing mime types, really-a-png.svg, really-a-svg.png
    files = {
        "really-a-png.svg": (resfile("really-a-png.svg"), dict(mime="image/svg+xml", kind="image")),
        "really-a-svg.png": (resfile("really-a-svg.png"), dict(mime="image/png", kind="svg")),
        "nomime.css": ("p { color: #555 }\n", dict(kind="css")),
        "wrong.css": ("p { color: #666 }\n", dict(mime="text/plain", kind="css")),
    }
    scenario("res-12", "res", doc(css0, '<p><img src="really-a-png.svg" alt=alt1> <img src="really-a-svg.png" alt=alt2></p>' + text, '<link rel=stylesheet href="nomime.css"><link rel=stylesheet href="wrong.css">'),
             files=files, expect=dict(exp0, fault_words={"really-a-png.svg": ["alt1"], "really-a-svg.png": ["alt2"]}))

    # 14: unusual-but-plausible attribute values read by the SVG / HTML attribute readers
    odd_svg = ('<svg xmlns="http://www.w3.org/2000/svg" width="60" height="40" viewBox="0 0 60 40" preserveAspectRatio="xMid">'
               '<svg x="1" y="1" width="20" height="10" viewBox="0 0 10" preserveAspectRatio="none"><rect width="5" height="5"/></svg>'
               '<svg x="1" y="12" width="20" height="10" viewBox="0 0 10 10" preserveAspectRatio="xMaxYMin slice"><rect width="5" height="5" rx="9"/></svg>'
               '<g transform="translate(5) scale(2 , 1) rotate(10 1 1) skewY(5) matrix(1 0 0 1 0 0)"><path d="M1,1 l2-2 .5.5 1e1,0 z"/><polyline points="1,1 2"/><polygon points=""/><line x1="1"/>'
               '<ellipse rx="0" ry="4"/><circle r="-1"/><rect width="10%" height="1em" x="1ex" fill="rgb(1,2)" stroke="#12" stroke-width="-1" stroke-dasharray="1, ,2" opacity="2"/></g>'
               '<g transform="matrix(1 2 3 4 5 6 7)"><rect width="2" height="2"/></g><g transform="matrix(1 0 0 1 0)"><rect width="2" height="2"/></g><g transform="rotate(1 2 3 4) translate(1 2 3) scale() skewX(1 2) rotate()"><rect width="2" height="2"/></g>'
               '<g transform="matrix(0 0 0 0 0 0 0 0 0) translate"><rect width="2" height="2"/></g><g transform="scale(1,2,3,4,5,6,7,8)"><rect width="2" height="2"/></g>'
               '<defs><linearGradient id="lg" gradientTransform="matrix(1 0 0 1 0 0 9) rotate(1,2,3,4)"><stop offset="0" stop-color="red"/></linearGradient><pattern id="pt" width="2" height="2" patternTransform="translate(1 2 3 4 5 6 7)"><rect width="1" height="1"/></pattern></defs>'
               '<rect x="30" width="4" height="4" fill="url(#lg)"/><rect x="36" width="4" height="4" fill="url(#pt)"/>'
               '<text><rect width="2" height="2"/></text><text text-anchor="end"><a href="#x"><tspan>sv04</tspan></a></text><text/><text><title>t</title></text>'
               '<text x="1 2 3" y="" dx="a" font-size="0" text-anchor="middle">sv03</text></svg>')
    files = {"odd.svg": (odd_svg, dict(mime="image/svg+xml", kind="svg"))}
    for i, par in enumerate(["xMid", "x", "", "none", "xMinYMax", "xMidYMid  slice", "defer xMidYMid", "slice"]):
        files["par%d.svg" % i] = ('<svg xmlns="http://www.w3.org/2000/svg" width="20" height="10" viewBox="0 0 10 10" preserveAspectRatio="%s"><rect width="5" height="5"/></svg>' % par, dict(mime="image/svg+xml", kind="svg"))
    pars = " ".join('<img src="par%d.svg" alt="pa%02d">' % (i, i) for i in range(8))
    pars += ''.join(' <img src=\'%s\' alt="du%02d">' % (u, i) for i, u in enumerate([
        'data:text/css;charset=",p{}', 'data:image/png;a="b;c=",AAAA', 'data:;base64', 'data:,', 'data:text/plain;charset=utf-8;base64,%%%', 'data:image/png;base64,A', 'data:image/svg+xml;utf8,<svg xmlns=%22http://www.w3.org/2000/svg%22 width=%221%22/>',
        'data:text/css;charset="utf-8",.a%7B%7D', 'data:a/b;x', 'data:text/plain,%', 'data:text/plain,%4', 'data:text/plain,%zz']))
    pars += '<font size=" ">s001</font><font size="\t">s002</font><font size="+">s003</font><font size="-">s004</font><td colspan=" ">s005</td><ol start=" "><li value=" ">s006</li></ol><hr size=" "><img width=" " height=" " src="par0.svg" alt="s007"><table cellspacing=" " border=" " width=" "><tr><td>s008</td></tr></table>'
    # declarations / rules that are invalid in an unusual way (must be dropped, never crash)
    oddcss = ['.q1 { font: 12px / } .q2 { font: 12px /; color: red } .q3 { font: / ahem } .q4 { string-set: a content(), ; bookmark-label: , } .q5 { margin: 1px 2px 3px 4px 5px; padding: / } ',
              '@page :nth(of a) { margin: 1px } @page :nth( ) { margin: 1px } @page :nth(2n + ) { margin: 2px } @page x:first:first:blank { size: } .q6 { transform: rotate() scale(,) ; grid-area: / / / ; content: counter() counters(,) attr() } ',
              '.q8 { quotes: "a"; font-family: , ; counter-reset: a b c 1 2 ; transition: } @media { p { color: blue } } @font-face { src: ; unicode-range: u+ } @counter-style { } @counter-style x { system: ; symbols: ; additive-symbols: 0 }\n',
              '.q19 { color:/* a *//* b *//* c */!important; margin: 1px /* x */ /* y */ ! /* z */ important; padding: 1px/**/!/**/important/**/; width: /**/ } ',
              '.q16 { font-size: 2ex } .q17 { font-size: 1ch } .q18 { font-size: 1.5rem; width: 3ex; height: 2ch; line-height: 2ex } @font-face { font-family: ff1; src: format("woff") } @font-face { font-family: ff2; src: format() } @font-face { font-family: ff3; src: local() format("truetype"), url() } ',
              '.q9 { font: normal } .q10 { font: normal normal normal normal } .q11 { font: italic } .q12 { font: normal small-caps } ',
              'html { --cy: var(--cy); --ca: var(--cb); --cb: var(--ca, 3px); --ok: 5px; --d: var(--d, 4px) } .q13 { width: var(--cy); margin-left: var(--ca); padding-left: var(--d) } ',
              '.q14 { margin-left: calc(1px + calc(var(--ok))); background: linear-gradient(rgb(var(--ok), 0, 0), blue); border-left: var(--none, var(--ok)) solid } .q15 { margin: var(--cy) var(--ok) var() var(1) var(--) }\n',
              '@media ( { } .q7c { color: red }\n',
              '.q7 { background: url( ; } .q7b { color: red }\n']
    # one <style> element per piece: an unbalanced construct (the bad url of .q7 swallows everything after it) only costs its own element
    oddstyles = "".join("<style>%s</style>" % piece for piece in oddcss)
    body = ("%s<p>%s</p>" % (oddstyles, pars) + '<table><colgroup span="99999999999999"></colgroup><colgroup><col span="99999999999999"><col span="1001"></colgroup><tr><td class="q1 q2 q3 q4 q5 q6 q7 q8 q9 q10 q11 q12 q13 q14 q15">o000</td><td class=q19 style="color:/* a *//* b *//* c */!important;/**/;margin:/*x*/1px/*y*//*z*/!important">o0d</td><td class=q16>o0a</td><td class=q17>o0b</td><td class=q18>o0c</td></tr></table>' +'<table><colgroup><col span="0"><col span="x"></colgroup><tr><td colspan="0">o001</td><td rowspan="0">o002</td><td colspan="abc" rowspan="-1">o003</td><td colspan="1000">o004</td></tr><tr><td>o005</td></tr></table>'
            '<ol start="x" reversed><li value="z">o006</li><li>o007</li></ol><ol start="-3"><li>o008</li></ol>'
            '<p><img src="odd.svg" alt="alt1" width="-" height="1e"> <img src="odd.svg" width="0" height="0" alt="alt2"> <font size="+9" color="#zz">o009</font> <font size="">o010</font></p>'
            '<hr size="x" width="50%%"><pre width="0">o011</pre><p align="bogus" dir="x" lang="">o012</p>' + text)
    scenario("res-14", "res", doc(css0, body), files=files,
             expect=dict(exp0, legacy_attrs=True, sentinels=W + ["o%03d" % i for i in range(0, 13)], fault_words=dict({"odd.svg": ["alt1", "alt2", "sv03"]}, **{"par%d.svg" % i: ["pa%02d" % i] for i in range(8)})))

    # 16: @import inside an SVG <style>: chain, diamond, cycle and self import (fetched by the SVG code through
    # utils.DefaultUrlFetcher, i.e. over the simulated http transport)
    svgimp = ('<svg xmlns="http://www.w3.org/2000/svg" width="40" height="30"><style>@import url(si-a.css); @import "si-self.css"; rect { fill: blue }</style><rect class="a b" width="20" height="10"/></svg>')
    files = {
        "si-a.css": ('@import "si-b.css";\n.a { stroke: red }\n', dict(mime="text/css", kind="css")),
        "si-b.css": ('@import "si-a.css";\n@import url(si-c.css);\n.b { stroke-width: 2 }\n', dict(mime="text/css", kind="css")),
        "si-c.css": ('.c { opacity: 0.5 }\n', dict(mime="text/css", kind="css")),
        "si-self.css": ('@import "si-self.css";\n.s { fill: green }\n', dict(mime="text/css", kind="css")),
        "img.svg": (svgimp, dict(mime="image/svg+xml", kind="svg")),
    }
    scenario("res-16", "res", doc(css0, '<p>%s <img src="img.svg" alt="alt1"></p>' % svgimp + text), files=files, expect=dict(exp0, cyclic=True, fault_words={"img.svg": ["alt1"]}))

    # 17: counter values and counter styles at the edges (non-positive values for cyclic / symbolic / alphabetic,
    # zero additive weight, values beyond 32 bits), legacy table attributes with absurd values (presentational hints)
    css = css0 + ('@counter-style cyc { system: cyclic; symbols: a b c }\n@counter-style sym { system: symbolic; symbols: "*" "+" }\n@counter-style alp { system: alphabetic; symbols: x y }\n'
                  '@counter-style add { system: additive; additive-symbols: 5 "V", 1 "I", 0 "z" }\n@counter-style add0 { system: additive; additive-symbols: 5 "V", 0 "z" }\n@counter-style fix { system: fixed -1; symbols: p q r }\n'
                  '@counter-style num { system: numeric; symbols: "0" "1"; negative: "(" ")"; pad: 4 "_" }\n'
                  '@counter-style fa { system: fixed; symbols: a; fallback: fb } @counter-style fb { system: fixed; symbols: b; fallback: fa } @counter-style fs { system: additive; additive-symbols: 5 V; fallback: fs } @counter-style fr { system: cyclic; symbols: r; range: 100 200; fallback: fa }\n'
                  '@counter-style sy2 { system: symbolic; symbols: "*" "+"; range: -3 3 } @counter-style al2 { system: alphabetic; symbols: x y; range: -3 3 } @counter-style nu2 { system: numeric; symbols: "0" "1"; range: -3 3 }\n'
                  '.k2 { counter-reset: d -2 } .k2 span { counter-increment: d } .k2 span::before { content: counter(d, fa) "." counter(d, fs) "." counter(d, fr) "." counter(d, sy2) "." counter(d, al2) "." counter(d, nu2) " " }\n'
                  '.k { counter-reset: c -3 } .k span { counter-increment: c }\n.k span::before { content: counter(c, cyc) "." counter(c, sym) "." counter(c, alp) "." counter(c, add) "." counter(c, add0) "." counter(c, fix) "." counter(c, num) "." counter(c, symbols(cyclic "u" "v")) " " }\n')
    body = ('<p class=k2>' + "".join('<span>j%03d</span> ' % i for i in range(1, 8)) + '</p><ol style="list-style: fa"><li>l006</li><li>l007</li><li>l008</li></ol>' + '<p class=k>' + "".join('<span>k%03d</span> ' % i for i in range(1, 9)) + '</p><ol start="2147483647"><li>l001</li><li>l002</li><li>l003</li></ol><ol start="-2147483649" style="list-style: cyc"><li>l004</li><li>l005</li></ol>'
            '<table cellspacing="-99999999999999999999" cellpadding="99999999999999999999" width="-99999999999999999999" border="-1" height="9e99"><tr><td width="-5" height="1e999" colspan="3">m001</td></tr></table>'
            '<table cellspacing="-99999999999999999999"><tr><td>m005 m006 m007</td></tr></table><table width="99999999999999999999"><tr><td>m008 m009</td></tr></table><table cellpadding="-99999999999999999999"><tr><td>m010</td></tr></table>'
            '<table cellspacing="1e3" width="100000%"><tr><td>m002</td></tr></table><hr size="-99999999999999999999" width="99999999999999999999"><font size="99999999999999999999">m003</font> <font size="-99999999999999999999">m004</font>' + text)
    scenario("res-17", "res", doc(css, body), expect=dict(exp0, sentinels=W, legacy_attrs=True))

    # 13: underlined links with both engines (text decoration path), pre / tabs / rtl text
    css = css0 + "a { text-decoration: underline }\n.o { text-decoration: overline line-through }\npre { font-family: ahem; margin: 0 }\n"
    body = '<p><a href="http://example.org/">u001 u002</a> <span class=o>u003</span></p><pre>q001\tq002\nq003</pre>' + text
    scenario("res-13", "res", doc(css, body), expect=dict(exp0, sentinels=W + ["u001", "u002", "u003", "q001", "q002", "q003"]), engines=["pango", "gotext"])


# ------------------------------------------------------------------ family shared-* (histories on shared objects)

def gen_shared():
    user = ("p { background-image: linear-gradient(red 1em, blue 3em); border-image-source: linear-gradient(red, blue); border-image-outset: 1em 0.5em; border: 1px solid }\n"
            ".g { display: grid; grid-auto-rows: 2em; grid-auto-columns: 3em }\n"
            "div.r { background-image: radial-gradient(circle 2em at 1em 1em, red 0.5em, blue 2em); min-height: 3em }\n"
            "p { text-indent: 1em; word-spacing: 0.2em; letter-spacing: 0.1em; outline: 0.3em solid green; border-spacing: 0.5em; column-gap: 1em }\n"
            "p:nth-child(2n+1) { margin-left: 1em } div:nth-of-type(3n+2) { margin-left: 2em } div > div:nth-child(-n+2) { color: red } p:nth-last-child(2n) { padding-left: 0.5em } :nth-child(3n) > div { border-left: 0.2em solid blue }\n"
            "h2 { text-shadow: 0.1em 0.1em red; box-shadow: 0.2em 0.2em 0.3em blue; transform: translate(1em, 0.5em); background-position: 1em 2em; background-size: 3em 2em }\n")
    for i, fs in enumerate([10, 20, 14, 8], start=1):
        css = page_css(300, 200, 10) + "html, body { margin: 0; font-family: ahem; font-size: %dpx; line-height: 1.2 }\np { margin: 0 0 1em 0 }\nh2 { margin: 0; font-size: 1em; font-weight: normal }\n" % fs
        W = words("w", 18)
        body = "<h2>h001</h2>" + para(W[:9]) + '<div class=r>r001</div><div class=g><div>g001</div><div>g002</div><div>g003</div></div>' + para(W[9:])
        scenario("shared-%02d" % i, "shared", doc(css, body), files={"user.css": (user, dict(mime="text/css", kind="css"))}, user_css=["user.css"],
                 expect=dict(group="grad", sentinels=W, page_w=300, page_h=200))
    # raster image drawn twice in a document and documents written twice
    files = {"p.png": (resfile("pattern.png"), dict(mime="image/png", kind="image")), "b.jpg": (resfile("blue.jpg"), dict(mime="image/jpeg", kind="image"))}
    css = page_css(260, 160, 10) + BASE + "img { width: 20px; height: 20px }\n.bg { background: url(b.jpg); min-height: 10px }\n"
    W = words("w", 40)
    body = '<p><img src="p.png" alt=a1> <img src="p.png" alt=a2></p><div class=bg>x001</div>' + para(W[:20]) + '<p><img src="p.png" alt=a3></p><div class=bg>x002</div>' + para(W[20:])
    scenario("shared-05", "shared", doc(css, body), files=files, expect=dict(sentinels=W, page_w=260, page_h=160, margin=True, fault_words={"p.png": ["a1", "a2", "a3"]}))
    # two unrelated documents with different @page / counters / named strings, to interleave
    for i, (w, h) in enumerate([(200, 120), (280, 180)], start=6):
        css = page_css(w, h, 10) + BASE + "ol { margin: 0; padding-left: 30px } li { list-style-type: lower-roman }\nh2 { counter-increment: chap; string-set: t content() }\nh2::before { content: counter(chap) \" \" }\n"
        W = words("w", 30)
        body = "<h2>c001</h2><ol>%s</ol><h2>c002</h2>%s" % ("".join("<li>%s</li>" % w_ for w_ in W[:10]), para(W[10:]))
        scenario("shared-%02d" % i, "shared", doc(css, body), expect=dict(sentinels=W, page_w=w, page_h=h, margin=True))


# ------------------------------------------------------------------ family hyph-*

def gen_hyph():
    texts = {
        "en": "extraordinary circumstances necessitate considerable deliberation concerning fundamental organizational responsibilities",
        "fr": "anticonstitutionnellement extraordinairement particulierement responsabilites organisationnelles considerablement",
        "de": "Geschwindigkeitsbegrenzung Verantwortungsbewusstsein Unabhaengigkeitserklaerung Wahrscheinlichkeitsrechnung Donaudampfschiff",
    }
    for i, (lang, t) in enumerate(sorted(texts.items()), start=1):
        css = page_css(200, 150, 10) + "html, body { margin: 0; font-family: ahem; font-size: 8px; line-height: 10px }\np { margin: 0 0 10px 0; hyphens: auto; width: 150px }\n"
        body = '<p lang="%s">%s</p><p lang="%s">%s</p>' % (lang, t, lang, " ".join(reversed(t.split())))
        scenario("hyph-%02d" % i, "hyph", doc(css, body), expect=dict(page_w=200, page_h=150, margin=True, group="hyph"), engines=["pango", "gotext"] if lang == "en" else ["pango"])
    css = page_css(200, 150, 10) + "html, body { margin: 0; font-family: ahem; font-size: 8px; line-height: 10px }\np { margin: 0 0 10px 0; hyphens: auto; width: 150px }\n"
    body = "".join('<p lang="%s">%s</p>' % (l, t) for l, t in sorted(texts.items())) + '<p>%s</p><p>anticonstitutionnellement extraordinairement</p>' % texts["en"]
    scenario("hyph-04", "hyph", doc(css, body), expect=dict(page_w=200, page_h=150, margin=True, group="hyph"))
    # a dictionary with NON-STANDARD hyphenation points (hungarian "vissza" breaks as "visz-sza"): the lookup rewrites
    # the word around the break, from data held in the process-wide dictionary cache
    css = page_css(200, 150, 10) + "html, body { margin: 0; font-family: ahem; font-size: 10px; line-height: 10px }\np { margin: 0 0 10px 0; hyphens: auto; width: 50px }\n"
    body = '<p lang="hu">visszaemlekezesekkel</p><p lang="hu">asszonnyal visszavonhatatlanul hosszabbitassal</p><p lang="en">hyphenation</p><p lang="en">aa extraordinary</p><p lang="en">extra&shy;ordinary hyphenation extraordinary&shy;ly long</p><p lang="en">hyphenation a</p><p lang="en">abcdefgh --</p><p lang="en">circumstances !</p><p lang="en">consideration &#x2026;</p><p lang="en">hyphenation extraordinary&shy;</p><p lang="en">extra&shy;</p><p lang="en">&shy;</p><p lang="en">ab&shy; cd</p>'
    scenario("hyph-05", "hyph", doc(css, body), expect=dict(page_w=200, page_h=150, margin=True, group="hyph"), engines=["pango", "gotext"])


# ------------------------------------------------------------------ family feat-* (reach for rarely visited map-order sites)

def gen_feat():
    # quotes per language, font-variant / font-feature-settings, counters with several scopes
    css = page_css(260, 160, 10) + BASE + ('q { quotes: auto }\n.v { font-variant: small-caps oldstyle-nums slashed-zero; font-feature-settings: "liga" 0, "kern" 1, "smcp" 1; font-variant-ligatures: no-common-ligatures discretionary-ligatures }\n'
                                            'ol { counter-reset: a 1 b 2 c 3; margin: 0; padding-left: 20px } li { counter-increment: a 2 b c; list-style: none } li::before { content: counter(a) "." counter(b) "." counters(c, "-") " " }\n')
    W = words("w", 30)
    body = ('<p lang="zh-Hant-TW"><q>z001 <q>z002</q></q></p><p lang="zh_Hant_HK"><q>z003</q></p><p lang="en-GB-oxendict"><q>z004</q></p><p lang="fr-CA"><q>z005 <q>z006</q></q></p><p lang="sr-Latn"><q>z007</q></p><p lang="fr_CA_QC"><q>z009</q></p><p lang="sr_Latn_RS"><q>z010</q></p><p lang="bs_Cyrl_BA"><q>z011</q></p><p lang="yue-Hans"><q>z008</q></p>'
            '<p lang="fr"><q>%s <q>%s</q></q></p><p lang="de"><q>%s <q>%s</q></q></p><p lang="en-us" class=v>%s</p><ol>%s</ol>' %
            (W[0], W[1], W[2], W[3], " ".join(W[4:14]), "".join("<li>%s<ol><li>%s</li></ol></li>" % (W[14 + 2 * i], W[15 + 2 * i]) for i in range(8))))
    scenario("feat-01", "feat", doc(css, body), expect=dict(margin=True, page_w=260, page_h=160, sentinels=W, line_height=12))

    # string-set with several strings, bookmark-label with content(), target-counter / target-text to several anchors across pages
    css = page_css(240, 150, 10) + BASE + ('h2 { string-set: sa content(), sb content(before) "x", sc counter(page); bookmark-level: 2; bookmark-label: "B " content(text) }\nh2::before { content: "s" }\n'
                                            '@page { @top-left { content: string(sa) string(sb, first) ; font-family: ahem; font-size: 8px } @top-right { content: string(sc, last); font-family: ahem; font-size: 8px } }\n'
                                            'a.c::after { content: " tc" target-counter(attr(href), page) }\na.t::after { content: " tt" target-text(attr(href), content()) }\na.s::after { content: " ts" target-counters(attr(href), sec, ".") }\n'
                                            'h2 { counter-increment: sec }\n')
    body, flow, ids, links, bms = [], [], {}, [], []
    wi = 1
    for i in range(6):
        hw = "c%03d" % (i + 1)
        body.append('<h2 id="h%d">%s</h2>' % (i, hw)); ids["h%d" % i] = hw
        bms.append(dict(level=2, label="B " + hw, word=hw))
        ws = words("w", 16, wi); wi += 16; flow += ws
        inner = list(ws)
        t1, t2, t3 = "h%d" % ((i + 2) % 6), "h%d" % ((i + 3) % 6), "h%d" % ((i + 5) % 6)
        inner[2] = '<a class=c href="#%s">%s</a>' % (t1, ws[2]); links.append(dict(word=ws[2], target=t1))
        inner[7] = '<a class=t href="#%s">%s</a>' % (t2, ws[7]); links.append(dict(word=ws[7], target=t2))
        inner[11] = '<a class=s href="#%s">%s</a>' % (t3, ws[11]); links.append(dict(word=ws[11], target=t3))
        body.append("<p>%s</p>" % " ".join(inner))
    scenario("feat-02", "feat", doc(css, "\n".join(body), "<title>Targets</title>"),
             expect=dict(margin=True, page_w=240, page_h=150, ids=ids, links=links, bookmarks=bms, meta={"Title": "Targets"}, sentinels=flow, line_height=12))

    # grid with named lines / areas / auto-flow column, implicit tracks on both sides
    css = page_css(300, 200, 10) + BASE + ('.g { display: grid; grid-template-columns: [a] 60px [b] 1fr [c] 80px [d]; grid-template-areas: "x x y" "z w y"; gap: 4px; grid-auto-flow: column; grid-auto-columns: 40px; grid-auto-rows: 20px }\n'
                                            '.x { grid-area: x } .y { grid-area: y } .z { grid-area: z } .w { grid-column: b / c; grid-row: 2 } .n { grid-column: a / c } .m { grid-row: 3 / span 2; grid-column: c }\n')
    flows, items = {}, []
    for i, cls in enumerate(["x", "y", "z", "w", "n", "m", "", "", ""]):
        ws = words("abcdefghi"[i], 3 + i % 3)
        flows["item%d" % i] = ws
        items.append('<div class="%s">%s</div>' % (cls, " ".join(ws)))
    scenario("feat-03", "feat", doc(css, '<div class=g>%s</div>' % "".join(items)), expect=dict(flows=flows, margin=True, page_w=300, page_h=200, conserve=True, line_height=12))

    # many custom properties / var() / inherit chains / !important mixes (cascade maps), anonymous boxes, ::first-letter/::first-line
    css = page_css(260, 160, 10) + BASE + (':root { --a: 3px; --b: var(--a); --c: calc(var(--b) * 2); --col: #123456 }\n.k { margin-left: var(--b); padding-left: var(--c); color: var(--col); border-left: var(--a) solid var(--col) }\n'
                                            '.k { --a: 5px; margin-left: 1px !important } p::first-line { color: red }\n'
                                            'span.i { display: inline-block; width: 50px } span.b { display: block }\n')
    W = words("w", 40)
    body = "".join('<p class=k style="--d: %dpx; text-indent: var(--d)">%s <span class=i>%s</span> <span class=b>%s</span> %s</p>' % (i, " ".join(W[i * 10:i * 10 + 4]), W[i * 10 + 4], W[i * 10 + 5], " ".join(W[i * 10 + 6:i * 10 + 10])) for i in range(4))
    scenario("feat-04", "feat", doc(css, body), expect=dict(flows={"main": W}, margin=True, page_w=260, page_h=160, conserve=True, line_height=12))


# ------------------------------------------------------------------ family brk-* (avoided breaks: findEarlierPageBreak at every phase)

def gen_brk():
    # groups  figure(break-after:avoid) / caption(break-after:avoid) / paragraph, preceded by a varying number of
    # filler lines so that the group meets the page bottom at every phase, on first and later pages of its parent
    for n, (H, nested) in enumerate([(60, False), (70, True), (50, False)], start=1):
        css = ("@page { size: 120px %dpx; margin: 0 }\n" % H) + "html, body { margin: 0; font-family: ahem; font-size: 10px; line-height: 10px }\np, div { margin: 0 }\n" \
              "div.fig { break-after: avoid }\np.cap { break-after: avoid }\np { orphans: 2; widows: 2 }\n" + PROBE_CSS
        body, flow = [], []
        wi = 1

        def W(k):
            nonlocal wi
            ws = words("w", k, wi); wi += k
            flow.extend(ws)
            return ws
        for g in range(14):
            for _ in range(g % 7 + 1):
                body.append("<p>%s</p>" % W(1)[0])
            fig = "".join("<p>%s</p>" % W(1)[0] for _ in range(3))
            body.append('<div class=fig>%s</div>' % fig)
            body.append('<p class=cap>%s</p>' % W(1)[0])
            ws = W(5)
            body.append("<p>%s%s</p>" % (" ".join(ws), (" " + probe()) if g in (4, 9) else ""))
        inner = "\n".join(body)
        if nested:
            inner = "<div><div>%s</div></div>" % inner
        scenario("brk-%02d" % n, "brk", doc(css, inner), expect=dict(flows={"main": flow}, page_w=120, page_h=H, conserve=True, line_height=10))


def gen_feat2():
    # @counter-style (author defined, extends, fallback) in an inline sheet and in a linked sheet; @font-face in a linked sheet
    css = page_css(260, 160, 10) + BASE + ('@counter-style stars { system: symbolic; symbols: "*"; suffix: " " }\n@counter-style abc { system: alphabetic; symbols: a b c; prefix: "(" ; suffix: ") " }\n'
                                            '@counter-style ext { system: extends abc; pad: 3 "0" }\nol.s { list-style: stars } ol.a { list-style: abc } ol.e { list-style: ext } ol.l { list-style: linked }\nol { margin: 0; padding-left: 50px }\n.lf { font-family: linkedfont, ahem }\n')
    linked = '@counter-style linked { system: fixed 5; symbols: x y z; fallback: abc; suffix: "> " }\n@font-face { font-family: linkedfont; src: url(lf.otf) }\n'
    W = words("w", 16)
    body = "".join('<ol class=%s>%s</ol>' % (cls, "".join("<li>%s</li>" % w for w in W[i * 4:i * 4 + 4])) for i, cls in enumerate("sael")) + '<p class=lf>f001 f002</p>'
    scenario("feat-05", "feat", doc(css, body, '<link rel=stylesheet href="cs.css">'),
             files={"cs.css": (linked, dict(mime="text/css", kind="css")), "lf.otf": (resfile("weasyprint.otf"), dict(mime="font/otf", kind="font"))},
             expect=dict(margin=True, page_w=260, page_h=160, sentinels=W, line_height=12, fault_words={"lf.otf": ["f001", "f002"], "cs.css": ["f001", "f002"]}))


def gen_feat3():
    # running strings assigned on the first pages only, displayed on all pages (first / start / last / first-except)
    css = ("@page { size: 240px 150px; margin: 24px 10px 10px 10px; @top-left { content: string(chap); font-family: ahem; font-size: 8px } @top-center { content: string(chap, first) \" \" string(sec, last); font-family: ahem; font-size: 8px }"
           " @top-right { content: string(chap, first-except) string(sec, start); font-family: ahem; font-size: 8px } @bottom-center { content: \"pg\" counter(page) \"of\" counter(pages); font-family: ahem; font-size: 8px; line-height: 8px } }\n"
           + BASE + "h2 { string-set: chap content() } h3 { string-set: sec content() }\n")
    body, flow = [], []
    wi = 1
    for i in range(3):
        body.append("<h2>c%03d</h2><h3>s%03d</h3>" % (i + 1, i + 1)); flow += ["c%03d" % (i + 1), "s%03d" % (i + 1)]
        ws = words("w", 30, wi); wi += 30; flow += ws
        body.append(para(ws, 'style="break-after: page"'))
    for i in range(5):
        ws = words("w", 34, wi); wi += 34; flow += ws
        body.append(para(ws))
    body.append("<h3>s004</h3>"); flow.append("s004")
    ws = words("w", 60, wi); flow += ws
    body.append(para(ws))
    scenario("feat-06", "feat", doc(css, "\n".join(body)), expect=dict(margin=True, page_w=240, page_h=150, sentinels=[w for w in flow if w.startswith("w")], line_height=12))

    # unicode-range, escapes, odd-but-valid tokens at many places of a linked sheet (parser neighbourhood)
    sheet = ('@charset "utf-8";\n@font-face { font-family: ur; src: local(Ahem), url(none.woff) format("woff"); unicode-range: U+0-7F, u+26, U+4??, U+30-39 }\n'
             '@namespace svg url(http://www.w3.org/2000/svg);\n@media print and (min-width: 1px) { .a\\62 c { margin-left: +1.5e+0px; margin-top: -.5px; width: calc(100% - 2e1px) } }\n'
             '.u { background: url( "data:image/png;base64,AAAA" ), url(x\\29 y.png); content: "a\\"b" \'c\\\'d\' "\\26 "; color: #abc; quotes: "\\201C" "\\201D" }\n'
             'p:nth-child(2n+1):not(.x)::before, p:nth-of-type( -n + 3 ) { content: counter(c, lower-roman) attr(title) }\n'
             'p:contains("w00"), div:containsOwn(x), p:has(> span.a, + p), :is(p, div) > :where(span, a), p:matches(.a), a:link:not([href^="#"]), :lang(en), p:only-child, p:first-of-type:last-of-type, p:empty, :root > body { margin-right: 0 }\n'
             'a[href], a[href="x"], a[title~="t"], a[lang|="en"], a[href^="h" i], a[href$=".png" s], a[href*="x"], a[ href = x ], svg|a, *|p, |p, p#i.c.d:hover:focus, p::first-line, p::first-letter, p::marker, li::marker, p::after::before { padding-right: 0 }\n'
             'p + p ~ p > span span, p:nth-last-child(odd), p:nth-last-of-type(even), p:nth-child(+3n - 2), p:nth-child( 2 ), p:nth-child(n), p:nth-child(-n), p:nth-child(2n+1 of .a) { padding-bottom: 0 }\n'
             '@page :first { margin: 1cm 2mm 3pt 4pc; @top-left-corner { content: "" } }\n@supports (display: grid) { .g { display: grid } }\n.e { width: 1e3px; height: 1E-1em; --v: { a: b }; transform: rotate(-1.5turn) translate(1px , -2%) }\n/* trailing comment */\n.caf\u00e9 { font-family: \u00e9\u00e8, "\u00fc" } .\u65e5\u672c\u8a9e > .\u00e0b\u00e7 { content: "\u20ac\U0001f600" } #\u00f1 { --\u00e9: \u00e9 } .z\u00e9')
    W = words("w", 12)
    scenario("feat-07", "feat", doc(page_css(260, 160, 10) + BASE + ".ur { font-family: ur, ahem }\n", '<p class="abc u ur" title="t">%s</p><p class=e>%s</p>' % (" ".join(W[:6]), " ".join(W[6:])), '<link rel=stylesheet href="odd.css">'),
             files={"odd.css": (sheet, dict(mime="text/css", kind="css"))}, expect=dict(margin=True, page_w=260, page_h=160, sentinels=W, line_height=12))


def gen_pag2():
    # >= 10 pages: the probe text gets WIDER between the first pass (np0) and the final one (npNN);
    # paragraphs are exactly as wide as "w w w npNN" minus 5px, so the wider text wraps and pushes
    # lines (and page breaks) down: the re-pagination has to re-make the following pages too
    for n, (H, npar, probes_at) in enumerate([(110, 40, (3, 17, 30)), (150, 56, (0, 25)), (98, 36, (10, 11, 12))], start=17):
        css = page_css(205, H, 10) + BASE + "p { width: 185px; orphans: 1; widows: 1 }\n" + PROBE_CSS2
        body, flow = [], []
        wi = 1
        for pi in range(npar):
            k = 6 + (pi * 7) % 5
            if pi in probes_at:
                k = 6  # two full lines of three words; the probe ends the second line
            ws = words("w", k, wi); wi += k; flow += ws
            body.append(para(ws, "", k - 1 if pi in probes_at else None))
        scenario("pag-%02d" % n, "pag", doc(css, "\n".join(body)),
                 expect=dict(flows={"main": flow}, margin=True, page_w=205, page_h=H, conserve=True, geometry=True, fits_page=True, line_height=12, margin_top=10, margin_bottom=10, probe_literal=99))


def gen_pag3():
    # chapters with break-before: right; the first chapter fills exactly two pages in the first pass and needs a
    # third one (hence a blank fourth) once the probe text got wider: page TYPES (blank, named, side) of the
    # pages change between passes
    for n, tail_wide in enumerate([True, False], start=20):
        css = ("@page { size: 205px 110px; margin: 10px; @bottom-center { content: \"pg\" counter(page) \"of\" counter(pages); font-family: ahem; font-size: 8px; line-height: 8px } }\n"
               "@page :blank { size: 100px 100px }\n@page wide { size: 245px 110px }\n" + BASE + "p { margin: 0; orphans: 1; widows: 1 }\n.ch { break-before: right }\n.wide { page: wide }\n" + PROBE_CSS2)
        body, flow, forced, named = [], [], [], {}
        wi = 1

        def P(k, attrs="", probe_after=None):
            nonlocal wi
            ws = words("w", k, wi); wi += k
            flow.extend(ws)
            body.append(para(ws, attrs, probe_after))
            return ws
        # chapter 1: 13 one-line paragraphs + one "w w w <probe>" paragraph (1 line with np0, 2 lines with npNN)
        for i in range(13):
            P(3)
        P(3, "", 2)
        lens = [9, 16, 5, 20, 11]
        for ci, L in enumerate(lens):
            wide = tail_wide and ci >= 3
            first = True
            for j in range(L):
                cls = []
                if first:
                    cls.append("ch")
                if wide:
                    cls.append("wide")
                ws = P(3, ('class="%s"' % " ".join(cls)) if cls else "", 2 if (ci, j) in ((1, 7), (3, 2)) else None)
                if first:
                    forced.append(dict(word=ws[0], side="right"))
                if wide:
                    for w in ws:
                        named[w] = "wide"
                first = False
        exp = dict(flows={"main": flow}, margin=True, page_w=205, page_h=110, conserve=True, geometry=True, line_height=12, margin_top=10, margin_bottom=10,
                   probe_literal=99, forced=forced, page_sizes={"blank": [100, 100], "wide": [245, 110]}, named_of=named)
        scenario("pag-%02d" % n, "pag", doc(css, "\n".join(body)), expect=exp)


# ------------------------------------------------------------------ family geo-* (drawing paths and degenerate geometry)

def gen_geo():
    # every border style / radius / dashed / collapsed-table border / outline / decoration / background clip path
    css = page_css(300, 220, 10) + BASE + (
        ".b1 { border: 2px solid red } .b2 { border: 3px dashed green; border-radius: 5px } .b3 { border: 4px dotted blue; border-radius: 50% } .b4 { border: 6px double black }\n"
        ".b5 { border: 5px groove gray } .b6 { border: 5px ridge gray } .b7 { border: 4px inset gray; border-radius: 3px 10px } .b8 { border: 4px outset gray }\n"
        ".b9 { border-style: solid dashed dotted double; border-width: 1px 2px 3px 4px; border-color: red green blue black; border-radius: 8px / 4px }\n"
        ".o { outline: 2px dashed red; outline-offset: 2px } .d { text-decoration: underline overline line-through; text-decoration-color: green; text-decoration-style: wavy }\n"
        ".bg { background: linear-gradient(to right, red, blue) padding-box, radial-gradient(circle, yellow, green) border-box; border: 3px solid transparent; background-clip: content-box, border-box; padding: 2px }\n"
        ".sh { box-shadow: 2px 2px 3px black; opacity: 0.5 } .ov { overflow: hidden; height: 14px; border-radius: 4px }\n"
        "table.c { border-collapse: collapse } table.c td { border: 1px solid black; padding: 1px } table.c td.x { border: 3px dashed red } table.c td.y { border-style: hidden }\n"
        "div { margin-bottom: 3px }\n")
    W = words("w", 20)
    body = "".join('<div class="b%d">%s</div>' % (i + 1, W[i]) for i in range(9))
    body += '<div class=o>%s</div><div class=d>%s</div><div class=bg>%s</div><div class=sh>%s</div><div class=ov>%s</div>' % tuple(W[9:14])
    body += '<table class=c><tr><td>%s</td><td class=x>%s</td></tr><tr><td class=y>%s</td><td>%s</td></tr></table>' % tuple(W[14:18]) + para(W[18:])
    scenario("geo-01", "geo", doc(css, body), expect=dict(margin=True, page_w=300, page_h=220, sentinels=W, line_height=12))

    # degenerate geometry: zero sizes, zero font size, zero scale, coincident gradient stops, huge radius, empty boxes
    css = page_css(300, 220, 10) + BASE + (
        ".z1 { width: 0; border: 2px dashed red; border-radius: 4px } .z2 { height: 0; width: 0; border: 0 solid red; border-radius: 10px; background: red } .z3 { font-size: 0 }\n"
        ".z4 { transform: scale(0); transform-origin: 0 0 } .z5 { transform: scale(1, 0) rotate(30deg) } .z6 { width: 50px; height: 10px; background: linear-gradient(red 50%, blue 50%) }\n"
        ".z7 { width: 50px; height: 10px; background: radial-gradient(circle 0px, red, blue) } .z8 { width: 50px; height: 10px; background: linear-gradient(90deg, red 10px, blue 10px, green 10px) }\n"
        ".z9 { width: 20px; height: 20px; border-radius: 1000px; border: 1px solid black } .z10 { width: 40px; height: 0; border-top: 1px dotted black } .z11 { width: 40px; height: 10px; background: repeating-linear-gradient(red, blue 0px) }\n"
        ".z12 { width: 40px; height: 10px; background: url(dot.png) 0 0 / 0 0 } .z13 { width: 40px; height: 10px; border: 3px dashed transparent; border-image: linear-gradient(red, blue) 1 } .z14 { letter-spacing: -10px; word-spacing: -10px }\n"
        ".z19 { width: 3px; height: 3px; background: url(big.png) round } .z20 { width: 30px; height: 3px; background: url(big.png) round space } .z21 { width: 3px; height: 30px; background: url(big.png) space round }\n"
        ".z22 { width: 4px; height: 4px; border: 10px solid; border-image: url(b30.png) 10 round } .z23 { width: 0; height: 30px; border: 10px solid; border-image: url(b30.png) 10 round space } .z24 { width: 14px; height: 1px; border: 10px solid; border-image: url(b30.png) 10 space round } .z25 { width: 3px; height: 3px; border: 5px solid; border-image: url(b30.png) 14 repeat; border-image-width: 2 } .z26 { width: 4px; height: 4px; border: 10px solid; border-image: url(b30.png) 15 fill round }\n"
        ".z15 { width: 40px; line-height: 0 } .z16 { padding: 0; margin: -5px 0; height: 0 } a.z17 { display: inline-block; width: 0; height: 0 } .z18 { transform: matrix(0, 0, 0, 0, 0, 0) }\n")
    W = words("w", 22)
    body = "".join('<div class="z%d">%s</div>' % (i + 1, W[i]) for i in range(16))
    body += '<div class=z19></div><div class=z20></div><div class=z21></div><div class=z22></div><div class=z23></div><div class=z24></div><div class=z25></div><div class=z26></div>'
    body += '<p><a class=z17 href="#t1" id=t0>%s</a> <a class=z4 href="#t0" id=t1>%s</a> <a class=z18 href="#t0">%s</a></p>' % tuple(W[16:19]) + para(W[19:])
    scenario("geo-02", "geo", doc(css, body, "<title>Geo</title>"), files={"dot.png": (png(2, 2, (200, 0, 0)), dict(mime="image/png", kind="image")), "big.png": (png(8, 8, (0, 100, 0)), dict(mime="image/png", kind="image")), "b30.png": (png(30, 30, (0, 0, 150)), dict(mime="image/png", kind="image"))},
             expect=dict(margin=True, page_w=300, page_h=220, meta={"Title": "Geo"}, line_height=12))

    # clip/paint paths for boxes that generate no border dash / no cell / no content
    css = page_css(300, 200, 10) + BASE + "table { border-collapse: separate; border-spacing: 2px }\n"
    W = words("w", 12)
    body = ('<div style="width:1px;border-top:4px dashed red">%s</div><div style="width:2px;height:2px;border:3px dotted blue"></div><div style="height:1px;border-left:6px dashed green">%s</div>'
            '<table><colgroup><col style="background:red"><col style="background:blue"><col style="background:green"></colgroup><tr><td>%s</td><td>%s</td></tr><tr style="background:yellow"></tr><tr><td colspan=2>%s</td></tr></table>'
            '<table><tr style="background:red"></tr></table><table><colgroup style="background: red"><col></colgroup></table>' % tuple(W[:5])) + para(W[5:])
    scenario("geo-03", "geo", doc(css, body), expect=dict(margin=True, page_w=300, page_h=200, sentinels=W[5:], line_height=12))

    # geo-04: every radial-gradient size keyword x shape x centre on an edge / corner / outside (radius 0 along one or both
    # axes), on boxes with a zero dimension too; repeating gradients with a zero-length period
    rules, divs = [], []
    k = 0
    for size in ("closest-side", "farthest-side", "closest-corner", "farthest-corner"):
        for shape in ("circle", "ellipse"):
            for pos in ("at left", "at 0 0", "at right bottom", "at center", "at 100% 50%", "at -10px -10px", "at top", "at 50% 100%"):
                for rep in ("", "repeating-"):
                    if rep and pos != "at center":
                        # a repeating gradient of (nearly) zero radius is laid out with millions of colour stops:
                        # seconds of uninstrumented computation per box, which the simulator cannot tell from a stall
                        continue
                    k += 1
                    rules.append(".g%d { background: %sradial-gradient(%s %s %s, red, blue 50%%, green) }" % (k, rep, shape, size, pos))
                    divs.append('<div class="q g%d"></div>' % k)
    for extra in ("radial-gradient(0px 0px at 5px 5px, red, blue)", "radial-gradient(circle 0 at left, red, blue)", "radial-gradient(10px 0px, red, blue)",
                  "repeating-linear-gradient(45deg, red 3px, blue 3px)", "linear-gradient(0.0001deg, red, blue)", "linear-gradient(to top left, red, blue)", "repeating-radial-gradient(red 2px, blue 2px)"):
        k += 1
        rules.append(".g%d { background: %s }" % (k, extra))
        divs.append('<div class="q g%d"></div>' % k)
    css = page_css(400, 300, 10) + BASE + ".q { width: 14px; height: 6px; float: left; margin: 1px } .w0 .q { width: 0; padding-left: 0 } .h0 .q { height: 0 } .sq .q { width: 6px }\n" + "\n".join(rules) + "\n"
    W = words("w", 8)
    body = ('<div>%s</div><div style="clear: both" class=w0>%s</div><div style="clear: both" class=h0>%s</div><div style="clear: both" class=sq>%s</div><div style="clear: both">%s</div>' %
            ("".join(divs), "".join(divs[::3]), "".join(divs[1::3]), "".join(divs[2::3]), para(W)))
    scenario("geo-04", "geo", doc(css, body), expect=dict(margin=True, page_w=400, page_h=300, sentinels=W, line_height=12))

    # bookmark level sequences (level 2 first; 1,3,2; skipping), headings at the very top of pages, links split across pages
    css = page_css(220, 150, 10) + BASE + "h1 { bookmark-level: 1 } h2 { bookmark-level: 2 } h3 { bookmark-level: 3 } h4 { bookmark-level: 5 }\n.top { break-before: page }\na { color: blue }\n"
    body, flow, ids, links, bms = [], [], {}, [], []
    wi = 1
    seq = [(2, False), (1, False), (3, True), (2, False), (4, True), (1, True), (1, False), (3, False), (3, False), (2, True)]
    for i, (lvl, top) in enumerate(seq):
        hw = "h%03d" % (i + 1)
        tag = {1: "h1", 2: "h2", 3: "h3", 4: "h4"}[lvl]
        body.append('<%s id="b%d"%s>%s</%s>' % (tag, i, ' class=top' if top else "", hw, tag)); flow.append(hw)
        ids["b%d" % i] = hw
        bms.append(dict(level=5 if lvl == 4 else lvl, label=hw, word=hw))
        ws = words("w", 26, wi); wi += 26; flow += ws
        inner = list(ws)
        tgt = "b%d" % ((i * 3 + 1) % len(seq))
        # a link whose text spans many words, likely to be split across lines and pages
        inner[10] = '<a href="#%s">%s' % (tgt, ws[10]); inner[22] = ws[22] + "</a>"
        links.append(dict(word=ws[10], target=tgt)); links.append(dict(word=ws[22], target=tgt))
        body.append("<p>%s</p>" % " ".join(inner))
    body.append('<table><colgroup id="cg1"><col id="co1"><col id="co2"></colgroup><colgroup id="cg2" span="2"></colgroup><tr><td id="cell1">x001</td><td>x002</td><td>x003</td><td>x004</td></tr></table>')
    body.append('<p><a href="#cg1">x005</a> <a href="#co2">x006</a> <a href="#cg2">x007</a> <a href="#cell1">x008</a></p><p id="co1">x009</p><p id="cg2">x010</p>')
    flow += ["x%03d" % i for i in range(1, 11)]
    ids.update({"cg1": "x001", "co1": "x001", "co2": "x001", "cg2": "x001", "cell1": "x001"})
    links += [dict(word="x005", target="cg1"), dict(word="x006", target="co2"), dict(word="x007", target="cg2"), dict(word="x008", target="cell1")]
    head = ('<title> Spaced   title </title><meta name=author content="A One"><meta name=author content=""><meta name=author content="B Two"><meta name=keywords content="k1,k2 , k3,k1"><meta name=keywords content="k4">'
            '<meta name=description content="first"><meta name=description content="second"><meta name=dcterms.created content="2020-01-02T03:04:05+01:00"><meta name=dcterms.modified content="2021-06">')
    scenario("link-05", "link", doc(css, "\n".join(body), head),
             expect=dict(flows={"main": flow}, margin=True, page_w=220, page_h=150, conserve=True, ids=ids, links=links, bookmarks=bms, line_height=12,
                         meta={"Title": " Spaced   title ", "Authors": "A One\x1f\x1fB Two", "Keywords": "k1\x1fk2\x1fk3\x1fk4", "Description": "first",
                               "DateCreation": "2020-01-02T02:04:05Z", "DateModification": "2021-06-01T00:00:00Z"}))


def gen_pag4():
    # :left / :right / :first / :blank rules with different MARGINS (same size), side breaks with blank pages
    css = ("@page { size: 220px 150px; margin: 10px; @bottom-center { content: \"pg\" counter(page) \"of\" counter(pages); font-family: ahem; font-size: 8px; line-height: 8px } }\n"
           "@page :left { margin-left: 30px; margin-right: 10px }\n@page :right { margin-left: 10px; margin-right: 30px }\n@page :first { margin-top: 40px }\n@page :blank { margin-top: 5px }\n"
           + BASE + "p { orphans: 1; widows: 1 }\n" + PROBE_CSS)
    body, flow, forced = [], [], []
    wi = 1
    spec = [(14, None), (20, "left"), (9, "right"), (30, "left"), (12, "left"), (16, "right"), (8, None)]
    for i, (k, brk) in enumerate(spec):
        ws = words("w", k, wi); wi += k; flow += ws
        attrs = ('style="break-before: %s"' % brk) if brk else ""
        body.append(para(ws, attrs, 3 if i in (1, 4) else None))
        if brk:
            forced.append(dict(word=ws[0], side=brk))
    scenario("pag-22", "pag", doc(css, "\n".join(body)),
             expect=dict(flows={"main": flow}, margin=True, page_w=220, page_h=150, conserve=True, geometry=True, line_height=12, forced=forced,
                         page_margins={"left": [10, 10, 10, 30], "right": [10, 30, 10, 10], "first": [40, 30, 10, 10], "blank-left": [5, 10, 10, 30], "blank-right": [5, 30, 10, 10]}))

    # long paragraphs with bottom padding / border, orphans = widows = 1: every page ends in the middle of a paragraph
    # and must be filled to the last line that fits
    for n, (H, pad, bor) in enumerate([(150, 10, 0), (126, 0, 3), (170, 14, 2)], start=23):
        css = page_css(220, H, 10) + BASE + "p { orphans: 1; widows: 1; padding-bottom: %dpx; border-bottom: %dpx solid black; margin: 0 0 6px 0 }\n" % (pad, bor)
        body, flow, paras = [], [], []
        wi = 1
        for k in (70, 95, 40, 120, 66):
            ws = words("w", k, wi); wi += k; flow += ws; paras.append(ws)
            body.append(para(ws))
        scenario("pag-%02d" % n, "pag", doc(css, "\n".join(body)),
                 expect=dict(flows={"main": flow}, margin=True, page_w=220, page_h=H, conserve=True, geometry=True, fits_page=True, line_height=12, paras=paras, orphans=1, widows=1, fill_pages=True))


def gen_collide():
    # pairs of documents that use the SAME NAMES (counter styles, font families, named pages and strings, ids,
    # and even the same absolute URLs) with DIFFERENT meanings: a process-wide cache keyed by name or URL
    # makes the second render of a history differ from its solo reference
    defs = [
        dict(stars='system: symbolic; symbols: "*"; suffix: " "', abc='system: alphabetic; symbols: a b c; prefix: "("; suffix: ") "', ext='system: extends abc; pad: 3 "0"', roman='system: extends upper-roman; suffix: " - "',
             font="AHEM____.TTF", img=(200, 0, 0), sheet="p { margin-left: 4px } .k { color: #111 }", wide="260px 120px", fs=10),
        dict(stars='system: cyclic; symbols: "+" "-"; suffix: ": "', abc='system: numeric; symbols: x y; prefix: "<"; suffix: "> "', ext='system: extends abc; negative: "~"; prefix: "["', roman='system: extends decimal; prefix: "("; suffix: ") "',
             font="weasyprint.otf", img=(0, 0, 200), sheet="p { margin-left: 14px } .k { color: #999; font-size: 12px }", wide="180px 160px", fs=12),
    ]
    for i, d in enumerate(defs, start=1):
        css = ("@page { size: 240px 150px; margin: 10px; @top-left { content: string(t); font-family: ahem; font-size: 8px } @bottom-center { content: \"pg\" counter(page) \"of\" counter(pages); font-family: ahem; font-size: 8px; line-height: 8px } }\n"
               "@page wide { size: %s }\n" % d["wide"] +
               "html, body { margin: 0; font-family: ahem; font-size: %dpx; line-height: 1.2 }\np { margin: 0 0 1em 0 }\nh2 { margin: 0; font-size: 1em; font-weight: normal; string-set: t content() }\n" % d["fs"] +
               "@counter-style stars { %s }\n@counter-style abc { %s }\n@counter-style ext { %s }\n@counter-style roman { %s }\n" % (d["stars"], d["abc"], d["ext"], d["roman"]) +
               "@font-face { font-family: shared; src: url(font.bin) }\n.sf { font-family: shared, ahem }\n"
               "ol { margin: 0; padding-left: 60px } ol.s { list-style: stars } ol.a { list-style: abc } ol.e { list-style: ext } ol.r { list-style: roman }\n.w { page: wide }\nimg { width: 20px; height: 20px }\n")
        W = words("w", 24)
        body = ('<h2 id=x>t%03d</h2>' % i + "".join('<ol class=%s>%s</ol>' % (c, "".join("<li>%s</li>" % w for w in W[j * 3:j * 3 + 3])) for j, c in enumerate("saer")) +
                '<p class="sf k">%s <img src="img.png" alt=a1> <a href="#x">%s</a></p><div class=w>%s</div>' % (" ".join(W[12:16]), W[16], para(W[17:])))
        scenario("collide-%02d" % i, "collide", doc(css, body, '<link rel=stylesheet href="sheet.css">'),
                 files={"sheet.css": (d["sheet"], dict(mime="text/css", kind="css")), "font.bin": (resfile(d["font"]), dict(mime="font/ttf", kind="font")), "img.png": (png(4, 4, d["img"]), dict(mime="image/png", kind="image"))},
                 expect=dict(group="collide", sentinels=W[:12] + W[17:], line_height=12), base="http://sim.test/collide/")

    # forward target-text / target-counter references wrapped in quotes opened in ::before and closed in ::after
    css = page_css(240, 150, 10) + BASE + ('q { quotes: "<" ">" "[" "]" }\na::before { content: open-quote target-text(attr(href)) }\na::after { content: close-quote }\na.n::before { content: open-quote target-counter(attr(href), page) " " }\n'
                                            'span.o::before { content: open-quote } span.o::after { content: close-quote }\nbody { quotes: "<" ">" "[" "]" }\n')
    body, flow = [], []
    wi = 1
    for i in range(6):
        ws = words("w", 14, wi); wi += 14; flow += ws
        inner = list(ws)
        inner[2] = '<a href="#t%d">%s</a>' % ((i + 2) % 6, ws[2])
        inner[6] = '<span class=o>%s <a href="#t%d">%s</a></span>' % (ws[6], (i + 3) % 6, ws[7]); inner[7] = ""
        inner[10] = '<a class=n href="#t%d">%s</a>' % ((i + 4) % 6, ws[10])
        body.append('<p id="t%d">%s</p>' % (i, " ".join(x for x in inner if x)))
    scenario("feat-09", "feat", doc(css, "\n".join(body)), expect=dict(margin=True, page_w=240, page_h=150, line_height=12))


def gen_ow():
    # orphans / widows at every phase: paragraphs of exactly orphans+widows lines (and one more, one less)
    # preceded by 0..L-1 filler lines, so that each of them meets the page bottom with every number of lines left
    for n, (o, w, H) in enumerate([(2, 2, 94), (3, 2, 106), (1, 3, 82), (2, 3, 118)], start=1):
        L = (H - 20) // 12  # lines per page
        css = page_css(220, H, 10) + BASE + "p { margin: 0; orphans: %d; widows: %d }\n" % (o, w)
        body, flow, paras = [], [], []
        wi = 1

        def P(nlines):
            nonlocal wi
            k = nlines * 4  # 4 words of 4 chars per line: 4*40 + 3*10 = 190 <= 200 content width
            ws = words("w", k, wi); wi += k
            flow.extend(ws); paras.append(ws)
            body.append(para(ws))
        for phase in range(L + 2):
            for _ in range(phase % L + 1):
                P(1)
            P(o + w)
            P(o + w + 1)
            if o + w - 1 >= 2:
                P(o + w - 1)
        scenario("ow-%02d" % n, "ow", doc(css, "\n".join(body)),
                 expect=dict(flows={"main": flow}, margin=True, page_w=220, page_h=H, conserve=True, geometry=True, fits_page=True, line_height=12, paras=paras, orphans=o, widows=w))


def gen_wave2():
    # (b) a float that is a direct child of a break-inside: avoid block, met by the page bottom at every phase:
    # the block is pushed to the next page after its float was already cut
    for n, H in enumerate([110, 134], start=10):
        css = page_css(260, H, 10) + BASE + "p { margin: 0 } .av { break-inside: avoid } .f { float: left; width: 50px; margin-right: 10px }\n"
        body, flows, main = [], {}, []
        wi = 1
        fi = 0
        L = (H - 20) // 12
        for phase in range(L + 1):
            for _ in range(phase % L + 1):
                ws = words("w", 3, wi); wi += 3; main += ws
                body.append(para(ws))
            fw = words("f%d" % fi, 5)
            flows["float%d" % fi] = fw
            ws = words("w", 12, wi); wi += 12; main += ws
            body.append('<div class=av><div class=f>%s</div>%s</div>' % (" ".join(fw), para(ws)))
            fi += 1
        flows["main"] = main
        scenario("oof-%02d" % n, "oof", doc(css, "\n".join(body)), expect=dict(flows=flows, margin=True, page_w=260, page_h=H, conserve=True, line_height=12))

    # (c) lines taller than the strut next to stacked floats, with a float too wide to fit beside its text
    css = page_css(260, 200, 10) + BASE + "p { margin: 0 0 6px 0 } .fl { float: left; width: 60px; height: 14px } .fr { float: right; width: 60px; height: 20px; clear: right } .big { font-size: 18px } .wide { float: left; width: 200px }\n.ib { display: inline-block; height: 30px; width: 20px }\n"
    body, flows, main = [], {}, []
    wi = 1
    for i in range(6):
        a, b, cw = words("a%d" % i, 1), words("b%d" % i, 1), words("c%d" % i, 2)
        flows["fa%d" % i], flows["fb%d" % i], flows["fc%d" % i] = a, b, cw
        ws = words("w", 12, wi); wi += 12; main += ws
        inner = list(ws)
        inner[1] = '<span class=big>%s</span>' % ws[1]
        inner[4] = '<span class=ib></span> ' + ws[4]
        inner[6] = '<span class=wide>%s</span> %s' % (" ".join(cw), ws[6])
        body.append('<div class=fl>%s</div><div class=fr>%s</div><div class=fr></div><p>%s</p>' % (a[0], b[0], " ".join(inner)))
    for j, (wf, wbig) in enumerate([(90, 20), (80, 24), (95, 16), (70, 30)]):
        fl = words("x%d" % j, 1); flows["fx%d" % j] = fl
        ws = words("w", 4, wi); wi += 4; main += ws
        body.append('<div style="clear: both; width: 100px"><div style="float:left;width:20px;height:10px"></div><div style="float:left;clear:left;width:60px;height:10px"></div>'
                    '<p>%s <span style="float:left;width:%dpx">%s</span><span style="font-size:%dpx">%s</span> %s %s</p></div>' % (ws[0], wf, fl[0], wbig, ws[1], ws[2], ws[3]))
    flows["main"] = main
    scenario("oof-12", "oof", doc(css, "\n".join(body)), expect=dict(flows=flows, margin=True, page_w=260, page_h=200, conserve=True, line_height=12))

    # a line laid out twice (taller than the strut, colliding with a second stacked float) that holds a float too
    # wide to fit beside its text ("waiting float"), page as wide as the demo structure needs
    css = "@page { size: 100px 200px; margin: 0 }\nhtml, body { margin: 0; font-family: ahem; font-size: 10px; line-height: 10px }\np { margin: 0 } .f1 { float: left; width: 20px; height: 10px } .f2 { float: left; clear: left; width: 60px; height: 10px }\n.w { float: left; width: 90px } .w2 { float: left; width: 75px } .big { font-size: 20px } .c { clear: both; height: 3px }\n"
    body, flows, main = [], {}, []
    for j, (wc, f2) in enumerate([("w", True), ("w2", True), ("w", False), ("w", True)]):
        fl = "F%d" % j; flows["fw%d" % j] = [fl]
        ws = ["a%d" % j, "B%d" % j, "c%d" % j, "d%d" % j]; main += ws
        body.append('<div class=f1></div>%s<p>%s <span class=%s>%s</span><span class=big>%s</span> %s %s</p><div class=c></div>' % ('<div class=f2></div>' if f2 else "", ws[0], wc, fl, ws[1], ws[2], ws[3]))
    flows["main"] = main
    scenario("oof-13", "oof", doc(css, "\n".join(body)), expect=dict(flows=flows, page_w=100, page_h=200, conserve=True, line_height=10))

    # (d) table rows split by a page break: several cells of the row cut, cells after a colspan cell, rowspans
    css = page_css(300, 130, 10) + BASE + "table { border-collapse: separate; border-spacing: 2px; width: 100% } td { padding: 0; vertical-align: top }\n"
    flows, rows = {}, []
    for r in range(8):
        tds = []
        if r % 2 == 0:
            cells = [(0, 2, 1, 8), (2, 1, 1, 11), (3, 1, 1, 5)]      # colspan 2 first, then two cells
        elif r % 4 == 1:
            cells = [(0, 1, 2, 14), (1, 1, 1, 9), (2, 2, 1, 12)]     # rowspan 2 first
        else:
            cells = [(1, 1, 1, 10), (2, 1, 1, 10), (3, 1, 1, 10)]    # first column taken by the rowspan above
        for (cx, cs, rs, k) in cells:
            ws = words("r%dc%d" % (r, cx), k)
            flows["cell_%d_%d" % (r, cx)] = ws
            tds.append('<td colspan=%d rowspan=%d>%s</td>' % (cs, rs, " ".join(ws)))
        rows.append("<tr>%s</tr>" % "".join(tds))
    scenario("table-03", "table", doc(css, "<table><thead><tr><td>th01</td><td>th02</td><td>th03</td><td>th04</td></tr></thead>%s</table>" % "".join(rows)),
             expect=dict(flows=flows, repeat=["th01", "th02", "th03", "th04"], margin=True, page_w=300, page_h=130, conserve=True, line_height=12))

    # (f) a page count that does not converge: "a III" wraps (4 pages), "a IV" fits (3 pages); the fix-point loop
    # must still terminate (maxLoops); page counters may legitimately be inconsistent, only termination and
    # conservation are expected
    css = "@page { size: 100px 62px; margin: 0 }\nhtml, body { margin: 0; font-family: ahem; font-size: 10px; line-height: 10px }\np { margin: 0; width: 40px }\n.c::after { content: \"a \" counter(pages, upper-roman) }\n"
    W = words("w", 14)
    body = "".join("<p>%s</p>" % w for w in W[:7]) + "<p class=c></p>" + "".join("<p>%s</p>" % w for w in W[7:])
    scenario("pag-26", "pag", doc(css, body), expect=dict(flows={"main": W}, conserve=True, line_height=10, fault_words={"_": ["a", "I", "II", "III", "IV", "V", "VI", "VII"]}))


def gen_rewrite():
    # constructs whose drawing mutated state in earlier versions: page marks + bleed, block-ellipsis / max-lines,
    # SVG <text> positioned by the running cursor, images drawn on several pages, justified text
    css = ("@page { size: 220px 150px; margin: 20px; marks: crop cross; bleed: 6px; @bottom-center { content: \"pg\" counter(page) \"of\" counter(pages); font-family: ahem; font-size: 8px; line-height: 8px } }\n" + BASE +
           ".ell { max-lines: 2; block-ellipsis: auto; width: 120px } .ell2 { max-lines: 1; block-ellipsis: \"~~\"; width: 100px } .j { text-align: justify; width: 150px } .j2 { text-align: justify; text-align-last: justify; width: 150px }\n")
    W = words("w", 60)
    svgt = '<svg xmlns="http://www.w3.org/2000/svg" width="120" height="24"><text y="10" font-family="ahem" font-size="6">ta01<tspan>ta02</tspan><tspan dx="2">ta03</tspan></text><text y="20" font-family="ahem" font-size="6" dx="1 2 3">tb01</text><text y="23" font-size="3">tc01<tspan font-size="2">tc02</tspan></text><defs><linearGradient id="tg"><stop offset="0" stop-color="red"/><stop offset="1" stop-color="blue"/></linearGradient></defs><text x="60" y="10" font-family="ahem" font-size="6" fill="url(#tg)" opacity="0.5">td01</text><text x="90" y="20" font-family="ahem" font-size="6" text-anchor="middle" fill="url(#tg)"><tspan>te01</tspan><tspan>te02</tspan></text></svg>'
    body = (para(W[:8]) + '<p class=ell>%s</p><p class=ell2>%s</p>' % (" ".join(W[8:20]), " ".join(W[20:26])) + "<p>%s</p>" % svgt + '<p class=j>%s</p><p class=j2>%s</p><p class=j>%s</p>' % (" ".join(W[26:36]), " ".join(W[36:44]), " ".join(W[26:36]).replace("w0", "v0")) + para(W[44:]))
    scenario("rew-01", "rew", doc(css, body, "<title>Rewrite</title>"), expect=dict(page_w=232, page_h=162, meta={"Title": "Rewrite"}, line_height=12, group="rew"))


def gen_firstletter():
    # ::first-letter (inline and floated) and ::first-line, with probes (each pagination pass lays the boxes out again)
    css = page_css(220, 130, 10) + BASE + "p::first-letter { color: red } p.fl::first-letter { float: left; font-size: 20px; line-height: 24px } p::first-line { letter-spacing: 0px }\n" + PROBE_CSS
    body, flow = [], []
    wi = 1
    for i in range(9):
        ws = words("w", 14, wi); wi += 14; flow += ws
        body.append(para(ws, 'class=fl' if i % 3 == 1 else "", 6 if i in (2, 5) else None))
    # the first letter is drawn on its own: words are compared after re-joining it (see first_letter in expect)
    scenario("feat-10", "feat", doc(css, "\n".join(body)), expect=dict(flows={"main": flow}, margin=True, page_w=220, page_h=130, conserve=True, line_height=12, first_letter=True))


def gen_wave3():
    # multi-column content broken across pages, with probes on the continuation pages (columns resume from the
    # checkpoint's resume stack), plus a multi-column block pushed as a whole to the next page after a footnote
    css = page_css(260, 150, 10) + BASE + ".mc { columns: 2; column-gap: 10px } .mc p { margin: 0 0 6px 0 } .fn { float: footnote; font-size: 10px }\n::footnote-call { content: \"\" } ::footnote-marker { content: \"\" }\n.keep { break-inside: avoid }\n" + PROBE_CSS
    body, flows, main = [], {}, []
    wi = 1
    ws = words("w", 10, wi); wi += 10; main += ws
    body.append(para(ws))
    mc = []
    for i in range(10):
        ws = words("w", 14, wi); wi += 14; main += ws
        mc.append(para(ws, "", 7 if i in (3, 6, 8) else None))
    body.append('<div class=mc>%s</div>' % "".join(mc))
    ws = words("w", 40, wi); wi += 40; main += ws
    fw = words("n", 8); flows["fn0"] = fw
    body.append("<p>%s <span class=fn>%s</span> %s</p>" % (" ".join(ws[:30]), " ".join(fw), " ".join(ws[30:])))
    mc2 = []
    for i in range(3):
        ws = words("w", 8, wi); wi += 8; main += ws
        mc2.append(para(ws))
    body.append('<div class="mc keep">%s</div>' % "".join(mc2))
    ws = words("w", 12, wi); wi += 12; main += ws
    body.append(para(ws, "", 5))
    flows["main"] = main
    scenario("oof-15", "oof", doc(css, "\n".join(body)), expect=dict(flows=flows, margin=True, page_w=260, page_h=150, conserve=True, line_height=12))

    # floats / an absolute box that END in the middle of the document, followed by pages that break nothing, then
    # pages with probes: re-making only a late page must not bring the finished floats back
    css = page_css(260, 150, 10) + BASE + ".f { float: left; width: 50px; margin-right: 10px } .rel { position: relative } .abs { position: absolute; right: 0; top: 0; width: 50px }\n" + PROBE_CSS
    body, flows, main = [], {}, []
    f1, f2, ab = words("f", 26), words("g", 14), words("a", 18)
    flows["float0"], flows["float1"], flows["abs"] = f1, f2, ab
    body.append('<div class=rel><div class=abs>%s</div><div class=f>%s</div><div class=f>%s</div>' % (" ".join(ab), " ".join(f1), " ".join(f2)))
    wi = 1
    for pi in range(16):
        ws = words("w", 12, wi); wi += 12; main += ws
        body.append(para(ws, "", 6 if pi in (9, 12, 15) else None))
    body.append("</div>")
    flows["main"] = main
    scenario("oof-16", "oof", doc(css, "\n".join(body)), expect=dict(flows=flows, margin=True, page_w=260, page_h=150, conserve=True, line_height=12))

    # multi-column blocks that do not fit at the bottom of a page (pushed whole to the next one), next to a footnote,
    # and column-break properties used OUTSIDE columns (where they mean nothing); fixed-height blocks
    head = ("@page { size: 200px 300px; margin: 30px }\nhtml, body { margin: 0; font-family: ahem; font-size: 20px; line-height: 20px }\np { margin: 0 }\n"
            ".cols { columns: 2; column-gap: 0 } .cols div { break-inside: avoid } span.fn { float: footnote } section { break-inside: avoid }\n::footnote-call { content: \"\" } ::footnote-marker { content: \"\" }\n")
    body = ('<p style="height: 150px">aa</p><p>bb<span class=fn>f1 f2 f3 f4 f5 f6</span></p>'
            '<div class=cols><div style="height:100px">cc</div><div style="height:100px">dd</div><div style="height:100px">ee</div><div style="height:100px">ff</div></div><p>gg</p>')
    scenario("col-01", "col", doc(head, body), expect=dict(page_w=200, page_h=300, line_height=20, blocks_fit=True, geometry=True,
                                                             flows={"main": ["aa", "bb", "cc", "dd", "ee", "ff", "gg"], "fn": ["f1", "f2", "f3", "f4", "f5", "f6"]}, conserve=True))
    # greedy model: content box 240px high; blocks (word, height, break-before-page)
    blocks = [("aa", 100, False), ("bb", 100, False), ("C1", 60, False), ("ee", 20, False),                      # avoid-column on bb means nothing outside columns
              ("hh", 150, True), ("ii", 30, False), ("xx", 30, False), ("C2", 60, False), ("jj", 20, False),    # break-before: column on xx means nothing
              ("kk", 50, True), ("ll", 50, False), ("C3", 60, False), ("mm", 20, False), ("nn", 20, True)]
    html_blocks, word_page, flow = [], {}, []
    page, used = 0, 0
    for (w, h, brk) in blocks:
        if brk or used + h > 240:
            page += 1; used = 0
        used += h
        style = "height: %dpx" % h
        if brk:
            style += "; break-before: page"
        if w == "bb" or w == "ll":
            style += "; break-after: avoid-column"
        if w == "xx" or w == "mm":
            style += "; break-before: column"
        if w.startswith("C"):
            a, b = w.lower() + "a", w.lower() + "b"
            html_blocks.append('<div class=cols><div style="height:%dpx">%s</div><div style="height:%dpx">%s</div></div>' % (h, a, h, b))
            word_page[a] = page; word_page[b] = page; flow += [a, b]
        else:
            html_blocks.append('<p style="%s">%s</p>' % (style, w))
            word_page[w] = page; flow.append(w)
    scenario("col-02", "col", doc(head, "".join(html_blocks)), expect=dict(page_w=200, page_h=300, line_height=20, blocks_fit=True, geometry=True, word_page=word_page,
                                                                            flows={"main": flow}, conserve=True))

    # margin boxes that manipulate counters: a "continued" header incrementing page, several boxes per side
    css = ("@page { size: 220px 150px; margin: 24px 10px 18px 10px; @top-left { content: \"tl\" counter(page) } @top-right { counter-increment: page; content: \"nx\" counter(page) } @top-center { content: \"tc\" counter(page) \"of\" counter(pages) }"
           " @bottom-left { counter-reset: foo 7; content: \"bl\" counter(foo) } @bottom-center { content: \"pg\" counter(page) \"of\" counter(pages); } @bottom-right { content: \"br\" counter(foo) counter(page) } }\n"
           "@page { font-family: ahem; font-size: 6px; line-height: 6px }\n" + BASE)
    body, flow = [], []
    wi = 1
    for i in range(5):
        ws = words("w", 18, wi); wi += 18; flow += ws
        body.append(para(ws))
    scenario("pag-27", "pag", doc(css, "\n".join(body)), expect=dict(flows={"main": flow}, margin=True, page_w=220, page_h=150, conserve=True, line_height=12, margin_counters=True))

    # same text / style / width as a justified paragraph of rew-01, NOT justified, in the same group (shared font configuration)
    css = ("@page { size: 220px 150px; margin: 20px }\n" + BASE + ".j { width: 150px }\n")
    W = words("w", 60)
    body = '<p class=j>%s</p><p class=j>%s</p>' % (" ".join(W[26:36]), " ".join(W[36:44])) + para(W[:8])
    scenario("rew-02", "rew", doc(css, body), expect=dict(page_w=220, page_h=150, line_height=12, group="rew"))
    # rew-03 / rew-04: documents with web fonts of DIFFERENT family names, in the same group: what the font configuration
    # registered for one must not show in the other
    for n, (fam, fontfile) in enumerate([("wfa", "AHEM____.TTF"), ("wfb", "weasyprint.otf")], start=3):
        css = ("@page { size: 220px 150px; margin: 20px }\n" + BASE + "@font-face { font-family: %s; src: url(font%d.bin) }\n.w { font-family: %s, ahem }\n" % (fam, n, fam))
        W = words("w", 12)
        scenario("rew-%02d" % n, "rew", doc(css, '<p class=w>%s</p>' % " ".join(W[:6]) + para(W[6:])), files={"font%d.bin" % n: (resfile(fontfile), dict(mime="font/ttf", kind="font"))},
                 expect=dict(page_w=220, page_h=150, line_height=12, group="rew", sentinels=W[6:]))

    # an SVG served under a redirected URL that refers to itself by its original URL, and a redirected stylesheet
    # whose relative references must be resolved against the redirected URL
    self_svg = '<svg xmlns="http://www.w3.org/2000/svg" width="40" height="30"><rect width="10" height="10"/><image href="http://sim.test/res-18/loop.svg" width="20" height="15"/></svg>'
    files = {
        "loop.svg": (self_svg, dict(mime="image/svg+xml", kind="svg", redirect="http://sim.test/res-18/moved/loop.svg")),
        "r.css": ('@import "sub.css";\np { color: #321 }\n.r { background: url(dot.png) }\n', dict(mime="text/css", kind="css", redirect="http://sim.test/res-18/moved/r.css")),
        "moved/sub.css": ('.s { margin-left: 3px }\n', dict(mime="text/css", kind="css")),
        "moved/dot.png": (png(2, 2, (9, 9, 9)), dict(mime="image/png", kind="image")),
    }
    css0 = page_css(260, 160, 10) + BASE + "img { width: 40px; height: 30px }\n"
    W = words("w", 24)
    scenario("res-18", "res", doc(css0, '<p class="r s"><img src="loop.svg" alt="alt1"></p>' + para(W[:12]) + para(W[12:]), '<link rel=stylesheet href="r.css">'), files=files,
             expect=dict(margin=True, page_w=260, page_h=160, line_height=12, sentinels=W, cyclic=True, fault_words={"loop.svg": ["alt1"]}))


def gen_wave4():
    # pag-28: forced breaks with a side carried by TABLE ROWS and row groups (break-before on the row, break-after on the
    # previous row), blank pages needed for some of them
    css = (page_css(220, 150, 10) + BASE + "table { border-collapse: collapse; border-spacing: 0; width: 200px; margin: 0 }\ntd { padding: 0; vertical-align: top }\np { orphans: 1; widows: 1 }\n")
    rows, flow, forced = [], [], []
    wi = 1
    spec = [(8, None, None), (6, None, None), (5, "right", None), (7, None, "left"), (4, None, None), (6, "left", None), (5, "page", None), (6, None, "recto"), (7, None, None), (4, "verso", None), (5, None, None)]
    pending = None
    groups = []
    for k, before, after in spec:
        ws = words("w", k, wi); wi += k; flow += ws
        st = []
        if before:
            st.append("break-before: %s" % before)
        if after:
            st.append("break-after: %s" % after)
        rows.append('<tr%s><td>%s</td></tr>' % ((' style="%s"' % "; ".join(st)) if st else "", " ".join(ws)))
        side = before or pending
        if side:
            forced.append(dict(word=ws[0], side={"page": "any", "recto": "right", "verso": "left"}.get(side, side)))
        pending = after
    lead = words("w", 6, wi); wi += 6
    tail = words("w", 6, wi); wi += 6
    # a second table whose ROW GROUPS carry the breaks
    g1 = words("w", 5, wi); wi += 5
    g2 = words("w", 5, wi); wi += 5
    g3 = words("w", 5, wi); wi += 5
    forced.append(dict(word=g2[0], side="right")); forced.append(dict(word=g3[0], side="left"))
    body = (para(lead) + "<table>%s</table>" % "".join(rows) + para(tail) +
            '<table><tbody><tr><td>%s</td></tr></tbody><tbody style="break-before: right"><tr><td>%s</td></tr></tbody><tbody style="break-before: left"><tr><td>%s</td></tr></tbody></table>' % (" ".join(g1), " ".join(g2), " ".join(g3)))
    scenario("pag-28", "pag", doc(css, body),
             expect=dict(flows={"main": lead + flow + tail + g1 + g2 + g3}, margin=True, page_w=220, page_h=150, conserve=True, line_height=12, forced=forced))

    # pag-29: @page :nth(an+b) with negative and zero steps; every rule sets a different margin, so the expected
    # margins of page i are the base margins overridden by the rules whose an+b (n >= 0) reaches i
    rules = [(-1, 2, 0, 30), (2, 3, 3, 25), (-2, 6, 1, 22), (1, 5, 2, 18), (0, 4, 0, 14)]
    side = ["top", "right", "bottom", "left"]

    def nth(a, b):
        if a == 0:
            return "%d" % b
        return "%sn%+d" % ({1: "", -1: "-"}.get(a, str(a)), b)
    css = ("@page { size: 220px 150px; margin: 10px; @bottom-center { content: \"pg\" counter(page) \"of\" counter(pages); font-family: ahem; font-size: 8px; line-height: 8px } }\n" +
           "".join("@page :nth(%s) { margin-%s: %dpx }\n" % (nth(a, b), side[k], v) for a, b, k, v in rules) + BASE + "p { orphans: 1; widows: 1 }\n")
    body, flow = [], []
    wi = 1
    for k in (40, 55, 30, 70, 45, 60):
        ws = words("w", k, wi); wi += k; flow += ws
        body.append(para(ws))
    scenario("pag-29", "pag", doc(css, "\n".join(body)),
             expect=dict(flows={"main": flow}, margin=True, page_w=220, page_h=150, conserve=True, line_height=12,
                         page_margins_base=[10, 10, 10, 10], page_margins_nth=[dict(a=a, b=b, side=k, value=v) for a, b, k, v in rules]))


    # feat-14: a running element whose generated content refers to the element itself (and two elements referring to each other)
    css = ("@page { size: 240px 150px; margin: 20px 10px 10px 10px; @top-center { content: element(x); font-family: ahem; font-size: 8px } @top-left { content: element(y); font-family: ahem; font-size: 8px } "
           "@bottom-center { content: \"pg\" counter(page) \"of\" counter(pages); font-family: ahem; font-size: 8px; line-height: 8px } }\n" + BASE +
           ".r { position: running(x) } .q { position: running(y) } .r::before { content: element(x) element(y) } .q::before { content: element(x) } .q::after { content: \"zz\" }\n")
    W = words("w", 30)
    scenario("feat-14", "feat", doc(css, '<div class=r>r001</div><div class=q>q001</div>' + para(W[:15]) + para(W[15:])), expect=dict(margin=True, page_w=240, page_h=150, line_height=12, sentinels=W + ["r001", "q001"]))

    # feat-15: bidirectional text: lines starting with a right-to-left run followed by left-to-right text, and the reverse
    css = page_css(240, 150, 10) + BASE
    W = words("w", 12)
    body = ('<p>&#x5d0;&#x5d1; %s</p><p>%s &#x5d0;&#x5d1;&#x5d2; %s &#x5d3;&#x5d4;</p><p dir=rtl>%s <span>&#x5d0;&#x5d1; %s</span> %s</p><p>&#x627;&#x644;&#x633;&#x644;&#x627;&#x645; %s</p>' % (W[0], W[1], W[2], W[3], W[4], W[5], W[6])) + para(W[7:])
    scenario("feat-15", "feat", doc(css, body), expect=dict(margin=True, page_w=240, page_h=150, line_height=12, sentinels=W[7:]))

    # oof-17: footnote-policy block / line at every phase: the paragraph holding the call (not on its first line) meets the page
    # bottom with 0..5 filler lines before it, with a footnote that fits and one that does not
    for n, policy in enumerate(["block", "line"], start=17):
        css = page_css(220, 106, 10) + BASE + "p { margin: 0; orphans: 1; widows: 1 }\nspan.fn { float: footnote; footnote-policy: %s }\n::footnote-call { content: \"\" } ::footnote-marker { content: \"\" }\n" % policy
        body, flow, fns = [], [], {}
        wi = 1
        for k, (fill, fl) in enumerate([(0, 2), (2, 5), (4, 2), (5, 9), (1, 3), (3, 7)]):
            for _ in range(fill):
                ws = words("w", 3, wi); wi += 3; flow += ws
                body.append(para(ws))
            ws = words("w", 7, wi); wi += 7; flow += ws
            fw = words("f", fl, k * 10 + 1); fns["foot%d" % k] = fw
            body.append('<p>%s<br>%s <span class=fn>%s</span> %s</p>' % (" ".join(ws[:3]), " ".join(ws[3:5]), "<br>".join(fw), " ".join(ws[5:])))
        flows = {"main": flow}; flows.update(fns)
        scenario("oof-%d" % n, "oof", doc(css, "\n".join(body)), expect=dict(flows=flows, margin=True, page_w=220, page_h=106, conserve=True, line_height=12))

    # oof-19: fixed and absolute boxes inside blocks that are cancelled and moved to the next page (break-inside: avoid,
    # orphans / widows): each fixed box is drawn once per page, each absolute box once. 7 lines per page; every case starts
    # a page, F filler lines, then a 3-line block whose FIRST line holds the positioned box and which does not fit
    css = page_css(220, 106, 10) + BASE + "p { margin: 0; orphans: 2; widows: 2 }\n.av { break-inside: avoid }\n.np { break-before: page }\n.fx { position: fixed; top: 0; left: 150px }\n.fy { position: fixed; top: 12px; left: 150px }\n.fz { position: fixed; top: 24px; left: 150px }\n.fv { position: fixed; top: 36px; left: 150px }\n.rel { position: relative }\n.ab { position: absolute; left: 150px }\n"
    body, flow = [], []
    wi = 1
    rep = []
    flows = {}
    for k, fill in enumerate([5, 6, 5, 6, 4, 5, 6]):
        for j in range(fill):
            ws = words("w", 3, wi); wi += 3; flow += ws
            body.append(para(ws, 'class=np' if j == 0 else ""))
        ws = words("w", 9, wi); wi += 9; flow += ws
        if k == 0:
            extra = '<span class=fx>x001</span>'; rep.append("x001")
        elif k == 1:
            extra = '<span class=fy>y001</span>'; rep.append("y001")
        elif k == 5:
            extra = '<span class=fz>z001</span>'; rep.append("z001")
        elif k == 6:
            extra = '<span class=fv>v001</span>'; rep.append("v001")
        else:
            extra = '<span class=ab>a%03d</span>' % k; flows["abs%d" % k] = ["a%03d" % k]
        inner = '<p>%s %s<br>%s<br>%s</p>' % (" ".join(ws[:3]), extra, " ".join(ws[3:6]), " ".join(ws[6:]))
        if k >= 5:  # the same two cases inside a relatively positioned ancestor
            inner = '<div class=rel>%s</div>' % (('<div class=av>%s</div>' % inner) if k % 2 == 1 else inner)
            body.append(inner)
        else:
            body.append(('<div class=av>%s</div>' % inner) if k % 2 == 0 else inner)
    flows["main"] = flow
    scenario("oof-19", "oof", doc(css, "\n".join(body)), expect=dict(flows=flows, repeat=rep, repeat_once_per_page=True, margin=True, page_w=220, page_h=106, conserve=True, line_height=12))

    # grid-04: grids that do not fit where they start: first row below the page bottom (large top margin / padding),
    # first row taller than the page, an item of zero width; the text after them must still be drawn
    css = page_css(220, 150, 10) + BASE + ".g { display: grid; grid-template-columns: 60px 60px }\n"
    W = words("w", 12)
    gif0 = "data:image/gif;base64,R0lGODlhAAAFAAAAADs="
    body = (para(W[:3]) + '<div class=g style="margin-top: 400px"><div>g001</div><div>g002</div></div>' + para(W[3:6]) +
            '<div class=g style="padding-top: 400px"><div>g003</div></div>' + '<div class=g style="grid-template-rows: 300px 10px"><div>g004</div><div>g005</div><div>g006</div></div>' + para(W[6:9]) +
            '<div class=g><img src="%s"><span>g007</span></div>' % gif0 + '<div class=g><img src="data:image/gif;base64,R0lGODlhAAAAAAAAADs="><span>g008</span></div><div class=g><img src="data:image/gif;base64,R0lGODlhBQAAAAAAADs="><span>g009</span></div>' + para(W[9:]))
    scenario("grid-04", "grid", doc(css, body), expect=dict(margin=True, page_w=220, page_h=150, line_height=12, sentinels=W))

    # flex-03: wrapping flex containers where an item is wider than the container, at every position (first, middle, last),
    # alone on its line; and narrow columns
    css = page_css(300, 200, 10) + BASE + ".fx { display: flex; flex-wrap: wrap; width: 120px; margin-bottom: 6px }\n.fx > div { flex: none }\n.wide { width: 200px } .n { width: 50px }\n"
    flows, conts = {}, []
    k = 0
    for pattern in ("wnn", "nwn", "nnw", "w", "ww", "wnw"):
        items = []
        for ch in pattern:
            ws = words("abcdefghijklmnopqrstuvwxyz"[k], 2); flows["item%d" % k] = ws; k += 1
            items.append('<div class="%s">%s</div>' % ("wide" if ch == "w" else "n", " ".join(ws)))
        conts.append('<div class=fx>%s</div>' % "".join(items))
    scenario("flex-03", "flex", doc(css, "".join(conts) + para(words("w", 10))),
             expect=dict(flows=dict(flows, main=words("w", 10)), margin=True, page_w=300, page_h=200, conserve=True, line_height=12))

    # ow-05: inline elements continued over several lines and directly followed by text with no break opportunity
    # (a comma after a link), in narrow blocks and across page breaks
    css = page_css(150, 106, 10) + BASE + "p { margin: 0 0 12px 0; orphans: 1; widows: 1; width: 100px }\na { color: blue }\nspan.b::before { content: \"bb01 bb02 bb03\" }\n"
    body, flow = [], []
    wi = 1
    for k in range(8):
        ws = words("w", 9, wi); wi += 9
        n1 = 1 + k % 3
        toks = ws[:n1] + ["<a>" + ws[n1]] + ws[n1 + 1:n1 + 4] + [ws[n1 + 4] + "</a>,x%02d" % k] + ws[n1 + 5:]
        flow += ws[:n1 + 5] + [",x%02d" % k] + ws[n1 + 5:]
        body.append("<p>%s</p>" % " ".join(toks))
    body.append('<p>y001 <span class=b></span>;y002 y003</p>'); flow += ["y001", "bb01", "bb02", "bb03", ";y002", "y003"]
    scenario("ow-05", "ow", doc(css, "\n".join(body)), expect=dict(flows={"main": flow}, margin=True, page_w=150, page_h=106, conserve=True, line_height=12))

    # res-19: replaced elements WITHOUT intrinsic ratio (svg with neither viewBox nor size; with only a width) and with a
    # degenerate one (0x0, 0x5, 5x0 rasters), with min/max sizes, in every shrink-to-fit context
    noratio = '<svg xmlns="http://www.w3.org/2000/svg"><rect width="5" height="5"/></svg>'
    onlyw = '<svg xmlns="http://www.w3.org/2000/svg" width="30"><rect width="5" height="5"/></svg>'
    gifs = {"g00.gif": "R0lGODlhAAAAAAAAADs=", "g05.gif": "R0lGODlhAAAFAAAAADs=", "g50.gif": "R0lGODlhBQAAAAAAADs="}
    onlyh = '<svg xmlns="http://www.w3.org/2000/svg" height="20"><rect width="5" height="5"/></svg>'
    emb = ('<svg xmlns="http://www.w3.org/2000/svg" xmlns:xlink="http://www.w3.org/1999/xlink" width="60" height="40"><image href="ow.svg" width="20" height="10"/><image href="ow.svg" x="5"/><image href="oh.svg" y="5"/>'
           '<image href="nr.svg" x="10"/><image href="oh.svg" width="7"/><image xlink:href="ow.svg" height="7"/><image href="g05.gif" x="3"/><image href="g50.gif"/><image href="g00.gif" width="4"/></svg>')
    files = {"nr.svg": (noratio, dict(mime="image/svg+xml", kind="svg")), "ow.svg": (onlyw, dict(mime="image/svg+xml", kind="svg")), "oh.svg": (onlyh, dict(mime="image/svg+xml", kind="svg")), "emb.svg": (emb, dict(mime="image/svg+xml", kind="svg"))}
    for fn, b64 in gifs.items():
        files[fn] = (base64.b64decode(b64), dict(mime="image/gif", kind="image"))
    css = page_css(300, 220, 10) + BASE + (".mh { min-height: 10px } .xh { max-height: 8px } .mw { min-width: 10px } .xw { max-width: 8px } .ib { display: inline-block } .fl { float: left } .ab { position: absolute; left: 200px }\n"
                                            ".fx { display: flex } .gr { display: grid; grid-template-columns: 40px 40px } td { padding: 0 }\n")
    W = words("w", 16)
    imgs = []
    for src in ("nr.svg", "ow.svg", "g00.gif", "g05.gif", "g50.gif"):
        for cls in ("mh", "xh", "mw", "xw", "mh xw"):
            imgs.append('<img class="%s" src="%s" alt="">' % (cls, src))
    allimgs = "".join(imgs)
    body = (para(W[:4]) + '<span class=ib>%s</span><div class=fl>%s</div><div style="clear:both"></div><table><tr><td>%s</td></tr></table><div class=ab>%s</div>' % (allimgs, allimgs, allimgs, "".join(imgs[:8])) +
            '<div class=fx>%s<span>%s</span></div><div class=gr>%s<span>%s</span></div>' % ("".join(imgs[::3]), W[4], "".join(imgs[1::3]), W[5]) + '<p><img src="emb.svg" alt="em01"> <img src="oh.svg" alt="em02" class=mw></p>' + para(W[6:]))
    scenario("res-19", "res", doc(css, body), files=files, expect=dict(margin=True, page_w=300, page_h=220, line_height=12, sentinels=W))

    # feat-16: url() and other image values where no image can be used: string-set, bookmark-label, content of margin boxes
    css = ("@page { size: 240px 150px; margin: 20px 10px 10px 10px; @top-left { content: string(s1) url(dot.png); font-family: ahem; font-size: 8px } "
           "@bottom-center { content: \"pg\" counter(page) \"of\" counter(pages); font-family: ahem; font-size: 8px; line-height: 8px } }\n" + BASE +
           "h2 { string-set: s1 url(dot.png) content() url(missing.png), s2 url(dot.png); bookmark-level: 1; bookmark-label: url(dot.png) content(text) url(missing.png) }\n"
           "p::before { content: url(missing.png) url(dot.png) } li::marker { content: url(missing.png) }\n")
    W = words("w", 20)
    scenario("feat-16", "feat", doc(css, '<h2>h001</h2>' + para(W[:10]) + '<h2>h002</h2><ul><li>%s</li></ul>' % W[10] + para(W[11:])),
             files={"dot.png": (png(2, 2, (1, 2, 3)), dict(mime="image/png", kind="image"))},
             expect=dict(margin=True, page_w=240, page_h=150, line_height=12, sentinels=W + ["h001", "h002"]))

    # edge-*: ONE absurd but legal value per document (several in one flow hide each other: after a box of 1e20px nothing else
    # is laid out where it would be). Sizes and offsets around 1e20, through CSS and through legacy attributes
    edge = [("width: 1e20px", None), ("margin-left: -1e20px", None), ("font-size: 1e-20px", None), ("text-indent: -1e20px", None), ("display: grid; grid-template-columns: 1e20px 1fr", None),
            ("float: left; width: 1e20px", None), ("display: table; border-spacing: -1e20px", None), (None, '<table cellspacing="-99999999999999999999"><tr><td>e001 e002</td></tr></table>'),
            (None, '<table width="99999999999999999999"><tr><td>e001 e002</td></tr></table>'), ("transform: scale(1e20)", None), ("line-height: 1e20", None), ("columns: 1000000000", None),
            ("letter-spacing: 1e20px", None), ("padding-left: 1e20px", None)]
    for i, (decl, html_) in enumerate(edge, start=1):
        W = words("w", 8)
        mid = html_ if html_ else '<div style="%s">e001 e002</div>' % decl
        scenario("edge-%02d" % i, "edge", doc(page_css(220, 150, 10) + BASE, para(W[:4]) + mid + para(W[4:])),
                 expect=dict(margin=True, page_w=220, page_h=150, line_height=12, sentinels=W[:4], legacy_attrs=bool(html_)))

    # pag-31: nested blocks whose bottom border / padding close at the page bottom, at every phase: an outer block with bottom
    # decoration holding an inner break-inside: avoid block of 3 lines, after F filler lines (10 lines fit a page)
    css = page_css(220, 150, 10) + BASE + "p { margin: 0; orphans: 1; widows: 1 }\n.np { break-before: page }\n.ob { border-bottom: 6px solid black; padding-bottom: 8px }\n.in { break-inside: avoid }\n"
    body, flow, keep = [], [], []
    wi = 1
    for F in list(range(0, 10)) + list(range(100, 110)):
        with_tail = F < 100
        F %= 100
        for j in range(F + 1):
            ws = words("w", 2, wi); wi += 2; flow += ws
            body.append(para(ws, 'class=np' if j == 0 else ""))
        inner = []
        grp = []
        for _ in range(3):
            ws = words("w", 2, wi); wi += 2; flow += ws; grp += ws
            inner.append(para(ws))
        keep.append(grp)
        tail = []
        if with_tail:  # (without a tail the avoid block is the last thing before the bottom decoration)
            tail = words("w", 2, wi); wi += 2; flow += tail
        body.append('<div class=ob><div class=in>%s</div>%s</div>' % ("".join(inner), para(tail) if tail else ""))
    scenario("pag-31", "pag", doc(css, "\n".join(body)), expect=dict(flows={"main": flow}, margin=True, page_w=220, page_h=150, conserve=True, geometry=True, fits_page=True, line_height=12, keep_together=keep))

    # pag-30: a page box with different top and bottom borders and paddings: the size given to AddPage is the declared one, the lines
    # stay inside the content box (140 - 20 margins - 15 border - 5 padding = 100px = 8 lines) and the pages are full
    css = ("@page { size: 160px 140px; margin: 10px; border-top: 15px solid black; padding-bottom: 5px; @bottom-center { content: \"pg\" counter(page) \"of\" counter(pages); font-family: ahem; font-size: 8px; line-height: 8px } }\n" + BASE + "p { margin: 0; orphans: 1; widows: 1 }\n")
    body, flow, paras = [], [], []
    wi = 1
    for k in (21, 30, 17, 26):
        ws = words("w", k, wi); wi += k; flow += ws; paras.append(ws)
        body.append(para(ws))
    scenario("pag-30", "pag", doc(css, "\n".join(body)), expect=dict(flows={"main": flow}, margin=True, page_w=160, page_h=140, conserve=True, geometry=True, fits_page=True, line_height=12, paras=paras, orphans=1, widows=1, fill_pages=True))

    # ow-06: positioned / stacking inline boxes (relative, opacity, transform) holding a nested inline, in narrow paragraphs, so that
    # line and page breaks fall inside and right after the nested inline at every position
    css = page_css(150, 106, 10) + BASE + "p { margin: 0 0 12px 0; orphans: 1; widows: 1; width: 100px }\n.r1 { position: relative; top: 1px } .r2 { opacity: 0.5 } .r3 { transform: translate(1px, 0); display: inline-block } .r4 { position: relative; z-index: 2 }\n"
    body, flow, flows = [], [], {}
    wi = 1
    for k in range(12):
        ws = words("w", 9, wi); wi += 9
        a = k % 4
        # positioned boxes are painted after the normal flow of their stacking context: their words form flows of their own
        flow += ws[:a] + ws[a + 5:]; flows["pos%d" % k] = ws[a:a + 5]
        toks = ws[:a] + ['<span class=r%d>%s' % (1 + k % 4 if k % 4 != 2 else 1, ws[a])] + [ws[a + 1]] + ['<b>' + ws[a + 2]] + [ws[a + 3]] + [ws[a + 4] + '</b></span>'] + ws[a + 5:]
        body.append("<p>%s</p>" % " ".join(toks))
    flows["main"] = flow
    scenario("ow-06", "ow", doc(css, "\n".join(body)), expect=dict(flows=flows, margin=True, page_w=150, page_h=106, conserve=True, line_height=12))

    # table-04: separated borders with vertical spacing, a row that has to be split across pages after a short first row: the first
    # lines of the split row belong on the first page
    css = page_css(220, 116, 10) + BASE + "table { border-collapse: separate; border-spacing: 0 4px; width: 200px; margin: 0 } td { padding: 0; vertical-align: top }\np { margin: 0; orphans: 1; widows: 1 }\n"
    flows, same = {}, []
    tables = []
    wi = 1
    for t, nlines in enumerate([8, 12]):
        r1 = words("w", 2, wi); wi += 2
        cell = words("w", nlines, wi); wi += nlines
        r3 = words("w", 2, wi); wi += 2
        flows["t%d_r1" % t] = r1; flows["t%d_r2" % t] = cell; flows["t%d_r3" % t] = r3
        same.append([r1[0], cell[0]])
        tables.append('<table style="break-before: page"><tr><td>%s</td></tr><tr><td>%s</td></tr><tr><td>%s</td></tr></table>' % (" ".join(r1), "<br>".join(cell), " ".join(r3)))
    scenario("table-04", "table", doc(css, "".join(tables)), expect=dict(flows=flows, margin=True, page_w=220, page_h=116, conserve=True, line_height=12, same_page=same))

    # feat-19: leaders whose text is narrower than a pixel or empty; pag-32: a hidden page box with bleed and marks
    css = page_css(240, 150, 10) + BASE + 'p.l::after { content: leader("."); font-size: 0.5px } p.m::after { content: leader("") } p.n::after { content: leader(dotted) "x"; font-size: 0 } p.o::after { content: leader(" ") "y" }\n'
    W = words("w", 12)
    svgtxt = '<svg xmlns="http://www.w3.org/2000/svg" width="60" height="20"><text><rect width="5" height="5"/></text><text x="30" y="10" text-anchor="middle"><tspan>sv05</tspan><tspan>sv06</tspan></text><text text-anchor="end"><a href="#x"><tspan>sv07</tspan></a></text><text/></svg>'
    scenario("feat-19", "feat", doc(css, '<p class=l>%s</p><p class=m>%s</p><p class=n>%s</p><p class=o>%s</p>' % (W[0], W[1], W[2], W[3]) + svgtxt + '<p>ig01 <span style="display: inline-grid">ig02</span> ig03 <span style="display: inline-flex">ig04</span></p>' + para(W[4:])), expect=dict(margin=True, page_w=240, page_h=150, line_height=12, sentinels=W))
    css = "@page { size: 200px 140px; margin: 10px; visibility: hidden; bleed: 10px; marks: crop cross; background: red }\n" + BASE
    W = words("w", 10)
    scenario("pag-32", "pag", doc(css, para(W[:5]) + para(W[5:])), expect=dict(line_height=12, sentinels=W))

    # feat-20: deprecated -weasy- prefixed properties (accepted with a warning): what they do must not depend on whether
    # warnings are listened to
    css = ("@page { -weasy-size: 230px 140px; margin: 10px; @bottom-center { content: \"pg\" counter(page) \"of\" counter(pages); font-family: ahem; font-size: 8px; line-height: 8px } }\n" + BASE +
           "h2 { bookmark-level: 1; -weasy-bookmark-label: \"W \" content(text); -weasy-string-set: t content() } p { -weasy-hyphens: manual; -weasy-bookmark-level: none }\n")
    W = words("w", 16)
    scenario("feat-20", "feat", doc(css, '<h2>h001</h2>' + para(W[:8]) + '<h2>h002</h2>' + para(W[8:])), expect=dict(margin=True, line_height=12, sentinels=W + ["h001", "h002"]))

    # table-05: fixed table layout, rows longer than the grid fixed by the first row: a spanning cell crossing the right edge,
    # followed by more cells; rows with fewer cells; a colspan in last position
    css = page_css(260, 200, 10) + BASE + "table { table-layout: fixed; width: 200px; border-collapse: separate; border-spacing: 0 } td { padding: 0 }\n"
    W = words("w", 20)
    rows = ['<tr><td>%s</td><td>%s</td></tr>' % (W[0], W[1]), '<tr><td>%s</td><td colspan=3>%s</td><td>%s</td><td>%s</td></tr>' % (W[2], W[3], W[4], W[5]), '<tr><td colspan=5>%s</td><td>%s</td></tr>' % (W[6], W[7]),
            '<tr><td>%s</td></tr>' % W[8], '<tr><td></td><td></td><td></td><td colspan=2>%s</td><td>%s</td></tr>' % (W[9], W[10])]
    body = '<table>%s</table><table style="width: 0">%s</table>' % ("".join(rows), rows[1]) + para(W[11:])
    scenario("table-05", "table", doc(css, body), expect=dict(margin=True, page_w=260, page_h=200, line_height=12, sentinels=W[11:] + W[:2]))

    # feat-21: visibility: visible content inside hidden boxes (blocks, inline boxes, table cells, list items): drawn; the hidden text is not
    css = page_css(240, 150, 10) + BASE + ".h { visibility: hidden } .v { visibility: visible } .c { visibility: collapse }\nul { list-style: none; margin: 0; padding: 0 }\n"
    V = words("v", 8); H = words("x", 8); W = words("w", 6)
    body = ('<div class=h>%s <span class=v>%s</span> %s</div><p>%s <span class=h>%s <b class=v>%s</b> %s</span> %s</p><table><tr class=h><td>%s</td><td class=v>%s</td></tr></table><ul class=h><li>%s</li><li class=v>%s</li></ul><p class=h><span><span><i class=v>%s</i></span></span></p>' %
            (H[0], V[0], H[1], V[1], H[2], V[2], H[3], V[3], H[4], V[4], H[5], V[5], V[6])) + para(W)
    scenario("feat-21", "feat", doc(css, body), expect=dict(flows={"main": [V[0], V[1], V[2], V[3], V[4], V[5], V[6]] + W}, margin=True, page_w=240, page_h=150, conserve=True, line_height=12))

    # pag-33: @page selector LISTS of mixed specificity with a competing rule in between
    css = ("@page { size: 220px 150px; margin: 10px; @bottom-center { content: \"pg\" counter(page) \"of\" counter(pages); font-family: ahem; font-size: 8px; line-height: 8px } }\n"
           "@page :left, :first { margin-top: 50px }\n@page :right { margin-top: 20px }\n@page :blank, :right { margin-left: 16px }\n@page :left { margin-left: 12px }\n" + BASE + "p { orphans: 1; widows: 1 }\n")
    body, flow = [], []
    wi = 1
    for k in (30, 44, 28, 36):
        ws = words("w", k, wi); wi += k; flow += ws
        body.append(para(ws))
    scenario("pag-33", "pag", doc(css, "\n".join(body)), expect=dict(flows={"main": flow}, margin=True, page_w=220, page_h=150, conserve=True, line_height=12,
                                                                   page_margins={"first": [50, 10, 10, 16], "left": [50, 10, 10, 12], "right": [20, 10, 10, 16]}))

    # pag-34: a forced break meeting an 'avoid' of any kind at the same break point: the forced break wins
    css = page_css(220, 150, 10) + BASE + "p { margin: 0 }\n"
    body, flow, forced = [], [], []
    wi = 1
    for av, fb in [("avoid", "page"), ("avoid-page", "page"), ("avoid-column", "page"), ("avoid-column", "right"), ("avoid", "left"), ("avoid-column", "always")]:
        a = words("w", 3, wi); wi += 3; b = words("w", 3, wi); wi += 3; flow += a + b
        body.append('<p style="break-after: %s">%s</p>' % (av, " ".join(a)))
        body.append('<p style="break-before: %s; break-inside: avoid">%s</p>' % (fb, " ".join(b)))
        forced.append(dict(word=b[0], side={"page": "any", "always": "any"}.get(fb, fb)))
    scenario("pag-34", "pag", doc(css, "\n".join(body)), expect=dict(flows={"main": flow}, margin=True, page_w=220, page_h=150, conserve=True, line_height=12, forced=forced))

def gen_reach():
    # documents aimed at range-over-map sites the evidence listed as never visited with >= 2 keys
    # (the reach table of evidence/C15.json): several page-based counters and several target counters missing
    # in ONE content list, a bookmark label built from counters, ligature / feature maps, grid items with a
    # definite row and an automatic column (sparse and dense)
    css = (page_css(240, 150, 10) + BASE +
           "body { counter-reset: sec }\nh2 { counter-increment: sec; bookmark-level: 1; bookmark-label: counter(sec) \" \" content(text) \" p\" counter(page) }\n"
           "a.t::after { content: \" \" counter(page) \"/\" counter(pages) \" \" target-counter(attr(href), page) \"/\" target-counter(attr(href), pages) \"/\" target-counter(attr(data-b), pages) \"/\" target-counter(attr(data-c), sec) }\n"
           ":root { --a: 3px; --b: 5px; --c: underline } p { margin-left: var(--a); padding-left: var(--b) } .caps { --b: 7px; text-decoration: var(--c) overline }\n"
           ".lig { font-variant-ligatures: none; font-feature-settings: \"kern\" 0, \"liga\" 1, \"smcp\" }\n.caps { font-variant-caps: small-caps; font-variant-numeric: tabular-nums slashed-zero; font-kerning: none }\n")
    body, flow = [], []
    wi = 1
    for i in range(6):
        ws = words("w", 16, wi); wi += 16; flow += ws
        inner = list(ws)
        inner[4] = '<a class=t href="#s%d" data-b="#s%d" data-c="#s%d">%s</a>' % ((i + 2) % 6, (i + 4) % 6, (i + 5) % 6, ws[4])
        cls = ["lig", "caps", ""][i % 3]
        body.append('<h2 id="s%d">h%03d</h2>' % (i, i + 1))
        body.append('<p class="%s">%s</p>' % (cls, " ".join(inner)))
    scenario("feat-11", "feat", doc(css, "\n".join(body)), expect=dict(margin=True, page_w=240, page_h=150, line_height=12, sentinels=flow))

    for n, dense in enumerate(["", " dense"], start=12):
        css = (page_css(260, 200, 10) + BASE +
               ".g { display: grid; grid-template-columns: 60px 60px 60px 60px; grid-auto-rows: 14px; grid-auto-flow: row%s }\n"
               ".r1 { grid-row: 1 } .r2 { grid-row: 2 } .s2 { grid-column: span 2 } .c3 { grid-column: 3 } .r12 { grid-row: 1 / 3 }\n" % dense)
        W = words("w", 14)
        cls = ["c3 r1", "r1", "r12", "r2 s2", "r2", "r1", "", "s2", "r2", "", "r1 s2", "", "r2", ""]
        items = "".join('<div class="%s">%s</div>' % (c, w) for c, w in zip(cls, W))
        T = words("t", 6)
        scenario("feat-%d" % n, "feat", doc(css, '<div class=g>%s</div>%s' % (items, para(T))), expect=dict(margin=True, page_w=260, page_h=200, line_height=12, sentinels=W + T))
        # the same grid cut after its 11th item: an automatically placed 'span 2' item meets the last column of the implicit grid
        items = "".join('<div class="%s">%s</div>' % (c, w) for c, w in list(zip(cls, W))[:11])
        scenario("feat-%d" % (n + 5), "feat", doc(css, '<div class=g>%s</div>%s' % (items, para(T))), expect=dict(margin=True, page_w=260, page_h=200, line_height=12, sentinels=W[:11] + T))

    # link-10: anchors and bookmarks in less common positions: <a name>, percent-encoded fragment, id on an inline
    # box split across lines and a page break, id on display:none (link must be dropped), id + link inside a
    # fixed-position box (drawn on every page: one anchor, the first), bookmark-level none, bookmark-label with content()
    css = (page_css(220, 150, 10) + BASE + "h1 { bookmark-level: 1 } h2 { bookmark-level: 2 } h3 { bookmark-level: 3 }\n.nb { bookmark-level: none }\n"
           ".lbl { bookmark-label: \"L \" content(text) }\n.sec { bookmark-level: 2; bookmark-label: attr(title) \" p\" counter(page) }\n.sect { bookmark-label: attr(title) \" see p\" target-counter(\"#top\", page) }\n.fx { position: fixed; bottom: 0; right: 0; width: 100px; text-align: right }\n.hid { display: none }\n")
    body, ids, links, bms, sent = [], {}, [], [], []
    wi = [1]

    def W(k):
        ws = words("w", k, wi[0]); wi[0] += k; sent.extend(ws); return ws
    body.append('<div class=fx id=fx>f001 <a href="#top">f002</a></div>'); ids["fx"] = "f001"; links.append(dict(word="f002", target="top"))
    body.append('<h1 id=top>h001 h002</h1>'); ids["top"] = "h001"; bms.append(dict(level=1, label="h001 h002", word="h001"))
    ws = W(14); inner = list(ws)
    inner[2] = '<a name="nm">%s</a>' % ws[2]; ids["nm"] = ws[2]
    inner[5] = '<a href="#caf%%C3%%A9">%s</a>' % ws[5]; links.append(dict(word=ws[5], target="caf\u00e9"))
    inner[9] = '<a href="#hid">%s</a>' % ws[9]
    inner[11] = '<a href="#sp">%s</a>' % ws[11]; links.append(dict(word=ws[11], target="sp"))
    body.append("<p>%s</p>" % " ".join(inner))
    body.append('<p class=hid id=hid>x001 x002</p>')
    body.append('<h3 class=nb>h003 h004</h3>')
    ws = W(40); inner = list(ws)
    inner[6] = '<span id=sp>' + ws[6]; inner[33] = ws[33] + '</span>'; ids["sp"] = ws[6]
    # a bookmarked element split across pages whose label must be parsed again after pagination: ONE outline entry
    body.append('<section class=sec title="long"><p>%s</p></section>' % " ".join(inner)); bms.append(dict(level=2, label="long p{page}", word=ws[0]))
    body.append('<h2 class=lbl id="caf\u00e9">h005 h006</h2>'); ids["caf\u00e9"] = "h005"; bms.append(dict(level=2, label="L h005 h006", word="h005"))
    ws = W(30); inner = list(ws)
    inner[3] = '<a href="#nm">%s</a>' % ws[3]; links.append(dict(word=ws[3], target="nm"))
    inner[20] = '<a href="#fx">%s</a>' % ws[20]; links.append(dict(word=ws[20], target="fx"))
    body.append('<section class="sec sect" title="tgt"><p>%s</p></section>' % " ".join(inner)); bms.append(dict(level=2, label="tgt see p1", word=ws[0]))
    body.append('<h3>h007 h008</h3>'); bms.append(dict(level=3, label="h007 h008", word="h007"))
    body.append(para(W(12)))
    body.append('<h1 class=lbl>h009 h010</h1>'); bms.append(dict(level=1, label="L h009 h010", word="h009"))
    body.append(para(W(8)))
    scenario("link-10", "link", doc(css, "\n".join(body), "<title>  Spaced   title </title><meta name=author content=\" A  B \"><meta name=x-custom content=\"c1\">"),
             expect=dict(margin=True, page_w=220, page_h=150, ids=ids, links=links, dangling=["hid"], bookmarks=bms, sentinels=sent + ["h001", "h003", "h005", "h007", "h009"], line_height=12))


def main():
    gen_pag()
    gen_wave3()
    gen_firstletter()
    gen_rewrite()
    gen_wave2()
    gen_ow()
    gen_collide()
    gen_pag4()
    gen_geo()
    gen_pag2()
    gen_pag3()
    gen_feat3()
    gen_feat2()
    gen_brk()
    gen_feat()
    gen_oof()
    gen_layouts()
    gen_links()
    gen_res()
    gen_shared()
    gen_hyph()
    gen_reach()
    gen_wave4()
    write_all()
    print("scenarios:", len(SCEN))


if __name__ == "__main__":
    main()
