#!/bin/bash
# build.sh <outdir> <sim|race|native>...
# Copies /repo's CURRENT WORKING TREE to a scratch dir, instruments the copy with the
# rewriter, builds the simulation worker (and optionally an un-rewritten -race worker)
# and leaves the binaries + site tables in <outdir>. The scratch copy is removed.
# Exit 2 on any infrastructure failure.
set -u
export GOFLAGS=-mod=mod GOPROXY=off GOSUMDB=off GOTOOLCHAIN=local
OUT=$1
REPO=${VERIF_REPO:-/repo}
VERIF=$(cd "$(dirname "$0")" && pwd)
BASE=${VERIF_SCRATCH:-}
if [ -z "$BASE" ]; then if [ -d /dev/shm ] && [ -w /dev/shm ]; then BASE=/dev/shm; else BASE=${TMPDIR:-/tmp}; fi; fi
S=$(mktemp -d "$BASE/verif-build.XXXXXX") || exit 2
trap 'rm -rf "$S"' EXIT
fail() { echo "build.sh: $*" >&2; exit 2; }
mkdir -p "$OUT" || fail "mkdir $OUT"

[ -x "$VERIF/bin/rewriter" ] || (cd "$VERIF/tools/rewriter" && go build -o "$VERIF/bin/rewriter" .) || fail "cannot build rewriter"

prep() { # $1 = dir name under $S
  mkdir -p "$S/$1/webrender" "$S/$1/harness/worker" || return 1
  rsync -a --exclude .git "$REPO/" "$S/$1/webrender/" || return 1
  mkdir -p "$S/$1/webrender/verifsim/simrt" || return 1
  cp "$VERIF"/sim/simrt/*.go "$S/$1/webrender/verifsim/simrt/" || return 1
  cp "$VERIF"/sim/worker/*.go "$S/$1/harness/worker/" || return 1
  cat > "$S/$1/harness/go.mod" <<EOM
module verifharness

go 1.23

require github.com/benoitkugler/webrender v0.0.0

replace github.com/benoitkugler/webrender => ../webrender
EOM
  cp "$REPO/go.sum" "$S/$1/harness/go.sum" || return 1
  # simrt's generic helpers need "comparable" to accept interface-bearing key types,
  # a go1.20 language feature. go 1.20 changes nothing else for existing code (loop
  # variables stay per-loop until 1.22), so a go directive below 1.20 is raised to
  # exactly 1.20 in the scratch copy; anything >= 1.20 is left as it is.
  local gv; gv=$(sed -n 's/^go 1\.\([0-9]*\).*/\1/p' "$S/$1/webrender/go.mod" | head -1)
  if [ -n "$gv" ] && [ "$gv" -lt 20 ]; then sed -i 's/^go 1\.[0-9]*.*/go 1.20/' "$S/$1/webrender/go.mod" || return 1; fi
}

shift
for T in "$@"; do
case "$T" in
sim)
  prep sim || fail "prep sim"
  # scratch-copy-only hook: lets the worker start every simulated run with a cold
  # process-wide hyphenation dictionary cache (the only process-global mutable state of
  # the library), so that a run does not depend on what the worker process ran before.
  cat > "$S/sim/webrender/text/hyphen/verif_reset.go" <<'EOM'
package hyphen

// VerifResetCache empties the process-wide dictionary cache (simulation only).
// Written against the NAMES dictionariesCache / dictionariesCacheLock only, not the
// element type, so that refactorings of the cached value still build.
func VerifResetCache() {
	dictionariesCacheLock.Lock()
	defer dictionariesCacheLock.Unlock()
	for k := range dictionariesCache {
		delete(dictionariesCache, k)
	}
}
EOM
  cp "$S/sim/webrender/go.mod" "$S/go.mod.orig"
  (cd "$S/sim/harness" && "$VERIF/bin/rewriter" "$S/sim/webrender" "$S/sim/harness") 2> "$OUT/rewriter.log" || { cat "$OUT/rewriter.log" >&2; fail "rewriter failed"; }
  cmp -s "$S/go.mod.orig" "$S/sim/webrender/go.mod" || fail "scratch go.mod was modified (language version semantics would change)"
  if ! (cd "$S/sim/harness" && go build -tags verifsim -o "$OUT/simworker.tmp" ./worker) 2> "$OUT/build.log"; then
    # the scratch-only reset hook may not fit a changed hyphen package: build without it
    # (runs then start with whatever cache the worker process has; outputs are unaffected)
    echo "build.sh: WARNING: building without the hyphenation-cache reset hook" >&2
    rm -f "$S/sim/webrender/text/hyphen/verif_reset.go"
    (cd "$S/sim/harness" && go build -o "$OUT/simworker.tmp" ./worker) 2> "$OUT/build.log" || { cat "$OUT/build.log" >&2; fail "build of rewritten tree failed"; }
    touch "$OUT/nohook"
  fi
  cp "$S/sim/webrender/verifsim/sites.tsv" "$S/sim/webrender/verifsim/uncontrolled.txt" "$OUT/" || fail "site tables"
  mv "$OUT/simworker.tmp" "$OUT/simworker"
  rm -rf "$S/sim"
  ;;
race)
  prep nat || fail "prep nat"
  (cd "$S/nat/harness" && go build -race -o "$OUT/raceworker.tmp" ./worker) 2>> "$OUT/build.log" || { cat "$OUT/build.log" >&2; fail "race build failed"; }
  mv "$OUT/raceworker.tmp" "$OUT/raceworker"
  rm -rf "$S/nat"
  ;;
native)
  prep nat || fail "prep nat"
  (cd "$S/nat/harness" && go build -o "$OUT/nativeworker.tmp" ./worker) 2>> "$OUT/build.log" || { cat "$OUT/build.log" >&2; fail "native build failed"; }
  mv "$OUT/nativeworker.tmp" "$OUT/nativeworker"
  rm -rf "$S/nat"
  ;;
*) fail "unknown target $T";;
esac
done
exit 0
